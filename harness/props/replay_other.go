package props

import "testing"

// replayOther dispatches non-history replay files (pure-function checks register here).
var otherReplays = map[string]func(t *testing.T, raw []byte){}

func replayOther(t *testing.T, prop, kind string, raw []byte) bool {
	f, ok := otherReplays[kind]
	if !ok {
		return false
	}
	f(t, raw)
	return true
}

func init() {
	// a native-fuzzing corpus entry is replayed by writing it under testdata/fuzz/<Target>/ and
	// running that target as a plain test
	otherReplays["fuzz-input"] = func(t *testing.T, raw []byte) {
		t.Skip("replayed by the driver: see bin/check (fuzz-input)")
	}
}
