package props

import (
	"encoding/base64"
	"encoding/json"
	"fmt"
	"strings"
	"testing"

	"github.com/btcsuite/btcutil/base58"
	sdk "github.com/cosmos/cosmos-sdk/types"
	"github.com/cosmos/cosmos-sdk/types/bech32"
	"github.com/gogo/protobuf/proto"
	aoltypes "github.com/medibloc/panacea-core/v2/x/aol/types"
	didtypes "github.com/medibloc/panacea-core/v2/x/did/types"
	pnfttypes "github.com/medibloc/panacea-core/v2/x/pnft/types"
	"pgregory.net/rapid"

	"verifharness/simnet"
	"verifharness/world"
)

// ---- boundary-directed field generators --------------------------------------------------------

// sized builds a string of exactly n bytes from units of the given rune (1-4 bytes wide),
// padded with 'a'.
func sized(n int, unit string) string {
	var sb strings.Builder
	for sb.Len()+len(unit) <= n {
		sb.WriteString(unit)
	}
	for sb.Len() < n {
		sb.WriteByte('a')
	}
	return sb.String()
}

type fieldVal struct {
	s     string
	class string
}

// genBounded draws a string around the byte-length boundary `max` (min length minLen), from
// the given charset class.
func genBounded(t *rapid.T, label string, minLen, max int, charsetSensitive bool) fieldVal {
	lens := []int{0, 1, max - 1, max, max + 1, max * 2}
	if max > 200 {
		lens = []int{0, 1, max - 1, max, max + 1}
	}
	n := rapid.SampledFrom(lens).Draw(t, label+"-len")
	units := []string{"a", "Z", "9", ".", "_", "-"}
	class := "charset"
	if rapid.IntRange(0, 3).Draw(t, label+"-off") == 0 {
		units = []string{"é", "한", "😀", " ", "/", "\n", "\x00", "\xff", "\v", "а" /* cyrillic */, "٣" /* arabic digit */, "*", "a\n"}
		class = "off-charset"
	}
	u := rapid.SampledFrom(units).Draw(t, label+"-unit")
	s := sized(n, u)
	if class == "off-charset" && n > 0 && rapid.Bool().Draw(t, label+"-single") {
		// exactly one offending character, at the start, the end or the middle
		base := sized(n, "a")
		if len(u) <= n {
			pos := rapid.SampledFrom([]int{0, (n - len(u)) / 2, n - len(u)}).Draw(t, label+"-pos")
			s = base[:pos] + u + base[pos+len(u):]
		}
	}
	return fieldVal{s, fmt.Sprintf("len%+d/%s", n-max, class)}
}

func genBytesField(t *rapid.T, label string, max int) ([]byte, string) {
	n := rapid.SampledFrom([]int{0, 1, max - 1, max, max + 1}).Draw(t, label+"-len")
	b := make([]byte, n)
	f := rapid.SampledFrom([]byte{0x00, 'a', 0xff}).Draw(t, label+"-fill")
	for i := range b {
		b[i] = f
	}
	return b, fmt.Sprintf("len%+d", n-max)
}

var addrPool []fieldVal

func addressPool() []fieldVal {
	if addrPool != nil {
		return addrPool
	}
	simnet.Setup()
	a := simnet.NewAccount("a0")
	b := simnet.NewAccount("a1")
	cosmos, _ := bech32.ConvertAndEncode("cosmos", a.Addr)
	long, _ := bech32.ConvertAndEncode("panacea", make([]byte, 256))
	l255, _ := bech32.ConvertAndEncode("panacea", make([]byte, 255))
	one, _ := bech32.ConvertAndEncode("panacea", []byte{7})
	bad := a.Bech[:len(a.Bech)-1] + "q"
	if bad == a.Bech {
		bad = a.Bech[:len(a.Bech)-1] + "p"
	}
	mixed := strings.ToUpper(a.Bech[:12]) + a.Bech[12:]
	addrPool = []fieldVal{
		{a.Bech, "valid"}, {b.Bech, "valid"}, {strings.ToUpper(a.Bech), "valid-uppercase"}, {one, "valid-1-byte"}, {l255, "valid-255-byte"},
		{"", "empty"}, {" ", "blank"}, {cosmos, "wrong-prefix"}, {bad, "bad-checksum"}, {mixed, "mixed-case"}, {long, "256-byte"},
		{a.Bech + " ", "trailing-space"}, {"panacea1", "no-payload"}, {"notbech32", "garbage"}, {world.BurnAddress, "valid"},
	}
	return addrPool
}

func genAddr(t *rapid.T, label string) fieldVal {
	pool := addressPool()
	if rapid.IntRange(0, 6).Draw(t, label+"-valid") > 0 {
		return pool[rapid.IntRange(0, 1).Draw(t, label+"-v")]
	}
	return rapid.SampledFrom(pool).Draw(t, label)
}

func genDID(t *rapid.T, label string) fieldVal {
	body := func(n int, ch string) string { return sized(n, ch) }
	cands := []fieldVal{
		{"did:panacea:" + body(32, "1"), "32"}, {"did:panacea:" + body(44, "z"), "44"}, {world.DIDKeys()[0].DID(), "derived"},
		{"did:panacea:" + body(31, "1"), "31"}, {"did:panacea:" + body(45, "z"), "45"}, {"did:panacea:" + body(33, "0"), "zero-char"},
		{"did:panacea:" + body(33, "O"), "O-char"}, {"did:panacea:" + body(33, "I"), "I-char"}, {"did:panacea:" + body(33, "l"), "l-char"},
		{"did:other:" + body(40, "1"), "wrong-method"}, {"DID:panacea:" + body(40, "1"), "upper-prefix"}, {"did:panacea:" + body(40, "1") + "\n", "trailing-newline"},
		{" did:panacea:" + body(40, "1"), "leading-space"}, {"", "empty"}, {"did:panacea:" + body(39, "1") + "é", "non-ascii"}, {"did:panacea:" + body(40, "1") + "#k", "with-fragment"},
	}
	if rapid.IntRange(0, 5).Draw(t, label+"-valid") > 0 {
		return cands[rapid.IntRange(0, 2).Draw(t, label+"-v")]
	}
	return rapid.SampledFrom(cands).Draw(t, label)
}

// genC16DocStructural assembles a document from a pool of three method ids and three keys:
// top-level methods (ids may repeat) and five relationship lists whose entries are embedded
// methods or plain references in any order, so that ids collide across and inside lists.
func genC16DocStructural(t *rapid.T, did string) (*didtypes.DIDDocument, string) {
	keys := world.DIDKeys()
	ids := []string{did + "#a", did + "#b", did + "#c"}
	short := map[string]string{ids[0]: "a", ids[1]: "b", ids[2]: "c"}
	vm := func(label string) *didtypes.VerificationMethod {
		id := rapid.SampledFrom(ids).Draw(t, label+"-id")
		ki := rapid.IntRange(0, 2).Draw(t, label+"-key")
		return &didtypes.VerificationMethod{Id: id, Type: es256k2019, Controller: did, PublicKeyBase58: base58.Encode(keys[ki].Pub)}
	}
	doc := &didtypes.DIDDocument{Contexts: &didtypes.JSONStringOrStrings{ctxV1}, Id: did}
	var desc []string
	nTop := rapid.SampledFrom([]int{1, 1, 2, 2, 3, 4}).Draw(t, "ntop")
	top := ""
	for i := 0; i < nTop; i++ {
		m := vm(fmt.Sprintf("top%d", i))
		doc.VerificationMethods = append(doc.VerificationMethods, m)
		top += short[m.Id]
	}
	desc = append(desc, "vm["+top+"]")
	rel := func(name string, minN int) []didtypes.VerificationRelationship {
		n := rapid.IntRange(minN, 3).Draw(t, name+"-n")
		var out []didtypes.VerificationRelationship
		d := ""
		for i := 0; i < n; i++ {
			if rapid.Bool().Draw(t, fmt.Sprintf("%s%d-embedded", name, i)) {
				m := vm(fmt.Sprintf("%s%d", name, i))
				out = append(out, didtypes.NewVerificationRelationshipDedicated(*m))
				d += "E" + short[m.Id]
			} else {
				id := rapid.SampledFrom(ids).Draw(t, fmt.Sprintf("%s%d-ref", name, i))
				out = append(out, didtypes.NewVerificationRelationship(id))
				d += "R" + short[id]
			}
		}
		if n > 0 {
			desc = append(desc, name+"["+d+"]")
		}
		return out
	}
	doc.Authentications = rel("auth", 1)
	doc.AssertionMethods = rel("assert", 0)
	doc.KeyAgreements = rel("agree", 0)
	doc.CapabilityInvocations = rel("capinv", 0)
	doc.CapabilityDelegations = rel("capdel", 0)
	// service lists of 0-3 entries with an incomplete entry at any position (not only the last)
	if nS := rapid.SampledFrom([]int{0, 0, 1, 2, 3, 3}).Draw(t, "nservices"); nS > 0 {
		d := ""
		for i := 0; i < nS; i++ {
			sv := &didtypes.Service{Id: fmt.Sprintf("s%d", i), Type: "LinkedDomains", ServiceEndpoint: "https://e"}
			switch rapid.SampledFrom([]string{"ok", "ok", "ok", "ok", "no-id", "no-type", "no-endpoint"}).Draw(t, fmt.Sprintf("service%d", i)) {
			case "no-id":
				sv.Id, d = "", d+"i"
			case "no-type":
				sv.Type, d = "", d+"t"
			case "no-endpoint":
				sv.ServiceEndpoint, d = "", d+"e"
			default:
				d += "+"
			}
			doc.Services = append(doc.Services, sv)
		}
		desc = append(desc, "svc["+d+"]")
	}
	// one defective top-level method at any position among the others
	if len(doc.VerificationMethods) > 1 && rapid.IntRange(0, 5).Draw(t, "bad-method") == 0 {
		i := rapid.IntRange(0, len(doc.VerificationMethods)-1).Draw(t, "bad-method-pos")
		m := *doc.VerificationMethods[i]
		switch rapid.IntRange(0, 2).Draw(t, "bad-method-kind") {
		case 0:
			m.PublicKeyBase58 = "0OIl"
		case 1:
			m.Type = ""
		default:
			m.Id = did
		}
		doc.VerificationMethods[i] = &m
		desc = append(desc, fmt.Sprintf("bad-vm@%d/%d", i, len(doc.VerificationMethods)))
	}
	return doc, "structural:" + strings.Join(desc, " ")
}

// genC16Doc builds a valid document about did and injects 0-2 defects, or assembles one
// structurally.
func genC16Doc(t *rapid.T, did string) (*didtypes.DIDDocument, string) {
	if rapid.IntRange(0, 3).Draw(t, "structural") == 0 {
		return genC16DocStructural(t, did)
	}
	keys := world.DIDKeys()
	pk := base58.Encode(keys[0].Pub)
	vm1 := &didtypes.VerificationMethod{Id: did + "#key1", Type: es256k2019, Controller: did, PublicKeyBase58: pk}
	vm2 := &didtypes.VerificationMethod{Id: did + "#key2", Type: ed2018, Controller: did, PublicKeyBase58: base58.Encode(keys[6].Pub)}
	doc := &didtypes.DIDDocument{
		Contexts:            &didtypes.JSONStringOrStrings{ctxV1},
		Id:                  did,
		VerificationMethods: []*didtypes.VerificationMethod{vm1, vm2},
		Authentications:     []didtypes.VerificationRelationship{didtypes.NewVerificationRelationship(vm1.Id)},
		AssertionMethods:    []didtypes.VerificationRelationship{didtypes.NewVerificationRelationship(vm2.Id)},
		Services:            []*didtypes.Service{{Id: "s1", Type: "LinkedDomains", ServiceEndpoint: "https://e"}},
	}
	nd := rapid.SampledFrom([]int{0, 1, 1, 1, 2}).Draw(t, "ndefects")
	var names []string
	defects := []struct {
		name string
		f    func()
	}{
		{"nil-document", func() { doc = nil }},
		{"no-context(valid)", func() { doc.Contexts = nil }},
		{"two-contexts(valid)", func() { doc.Contexts = &didtypes.JSONStringOrStrings{ctxV1, "https://x"} }},
		{"context-not-first", func() { doc.Contexts = &didtypes.JSONStringOrStrings{"https://x", ctxV1} }},
		{"context-single-wrong", func() { doc.Contexts = &didtypes.JSONStringOrStrings{"https://x"} }},
		{"context-single-empty-string", func() { doc.Contexts = &didtypes.JSONStringOrStrings{""} }},
		{"context-duplicate", func() { doc.Contexts = &didtypes.JSONStringOrStrings{ctxV1, ctxV1} }},
		{"context-empty-string", func() { doc.Contexts = &didtypes.JSONStringOrStrings{ctxV1, ""} }},
		{"context-empty-list", func() { doc.Contexts = &didtypes.JSONStringOrStrings{} }},
		{"controller-valid(valid)", func() { doc.Controller = &didtypes.JSONStringOrStrings{did} }},
		{"controller-empty-strings(valid)", func() { doc.Controller = &didtypes.JSONStringOrStrings{"", ""} }},
		{"controller-garbage", func() { doc.Controller = &didtypes.JSONStringOrStrings{"nonsense"} }},
		{"controller-mixed", func() { doc.Controller = &didtypes.JSONStringOrStrings{did, ""} }},
		{"no-verification-method", func() { doc.VerificationMethods = nil }},
		{"no-authentication", func() { doc.Authentications = nil }},
		{"method-id-other-did", func() { vm1.Id = "did:panacea:" + sized(40, "2") + "#key1" }},
		{"method-id-no-fragment", func() { vm1.Id = did }},
		{"method-id-empty-fragment", func() { vm1.Id = did + "#" }},
		{"method-id-128(valid)", func() {
			vm1.Id = did + "#" + sized(128, "k")
			doc.Authentications[0] = didtypes.NewVerificationRelationship(vm1.Id)
		}},
		{"method-id-129", func() {
			vm1.Id = did + "#" + sized(129, "k")
			doc.Authentications[0] = didtypes.NewVerificationRelationship(vm1.Id)
		}},
		{"method-id-space", func() {
			vm1.Id = did + "#k y"
			doc.Authentications[0] = didtypes.NewVerificationRelationship(vm1.Id)
		}},
		{"method-id-trailing-newline", func() {
			vm1.Id = did + "#key1\n"
			doc.Authentications[0] = didtypes.NewVerificationRelationship(vm1.Id)
		}},
		{"method-id-vertical-tab(undetermined)", func() {
			vm1.Id = did + "#k\vy"
			doc.Authentications[0] = didtypes.NewVerificationRelationship(vm1.Id)
		}},
		{"method-id-multibyte-128(valid)", func() {
			vm1.Id = did + "#" + sized(128, "한")
			doc.Authentications[0] = didtypes.NewVerificationRelationship(vm1.Id)
		}},
		{"method-id-multibyte-129-bytes-43-runes", func() {
			vm1.Id = did + "#" + strings.Repeat("키", 43)
			doc.Authentications[0] = didtypes.NewVerificationRelationship(vm1.Id)
		}},
		{"method-id-multibyte-384-bytes-128-runes", func() {
			vm1.Id = did + "#" + strings.Repeat("키", 128)
			doc.Authentications[0] = didtypes.NewVerificationRelationship(vm1.Id)
		}},
		{"type-empty", func() { vm1.Type = "" }},
		{"type-unknown(valid)", func() { vm1.Type = "SomeFutureKey2031" }},
		{"key-empty", func() { vm1.PublicKeyBase58 = "" }},
		{"key-not-base58", func() { vm1.PublicKeyBase58 = pk[:5] + "0" + pk[6:] }},
		{"key-trailing-newline", func() { vm1.PublicKeyBase58 = pk + "\n" }},
		{"auth-dangling-reference", func() { doc.Authentications[0] = didtypes.NewVerificationRelationship(did + "#nokey") }},
		{"auth-empty-relationship", func() { doc.Authentications[0] = didtypes.VerificationRelationship{} }},
		{"auth-dedicated(valid)", func() {
			doc.Authentications[0] = didtypes.NewVerificationRelationshipDedicated(didtypes.VerificationMethod{Id: did + "#ded", Type: es256k2019, Controller: did, PublicKeyBase58: pk})
		}},
		{"auth-dedicated-bad-key", func() {
			doc.Authentications[0] = didtypes.NewVerificationRelationshipDedicated(didtypes.VerificationMethod{Id: did + "#ded", Type: es256k2019, Controller: did, PublicKeyBase58: "0OIl"})
		}},
		{"assertion-dangling-reference", func() { doc.AssertionMethods[0] = didtypes.NewVerificationRelationship(did + "#zzz") }},
		{"key-agreement-dangling", func() {
			doc.KeyAgreements = []didtypes.VerificationRelationship{didtypes.NewVerificationRelationship(did + "#zzz")}
		}},
		{"capability-invocation-other-did", func() {
			doc.CapabilityInvocations = []didtypes.VerificationRelationship{didtypes.NewVerificationRelationship("did:panacea:" + sized(40, "3") + "#key1")}
		}},
		{"capability-delegation(valid)", func() {
			doc.CapabilityDelegations = []didtypes.VerificationRelationship{didtypes.NewVerificationRelationship(vm2.Id)}
		}},
		{"service-no-id", func() { doc.Services[0].Id = "" }},
		{"service-no-type", func() { doc.Services[0].Type = "" }},
		{"service-no-endpoint", func() { doc.Services[0].ServiceEndpoint = "" }},
		{"no-services(valid)", func() { doc.Services = nil }},
		{"two-services(valid)", func() {
			doc.Services = append(doc.Services, &didtypes.Service{Id: "s2", Type: "LinkedDomains", ServiceEndpoint: "https://f"})
		}},
		{"incomplete-service-before-a-complete-one", func() {
			doc.Services = append([]*didtypes.Service{{Id: "", Type: "LinkedDomains", ServiceEndpoint: "https://f"}}, doc.Services...)
		}},
		{"document-id-invalid", func() { doc.Id = "did:panacea:short" }},
		{"document-id-empty(undetermined)", func() { doc.Id = "" }},
		{"controller-field-of-method-garbage(valid)", func() { vm1.Controller = "whatever" }},
	}
	for i := 0; i < nd && doc != nil; i++ {
		d := defects[rapid.IntRange(0, len(defects)-1).Draw(t, fmt.Sprintf("defect%d", i))]
		func() {
			defer func() { _ = recover() }() // a second defect may index what the first removed
			d.f()
		}()
		names = append(names, d.name)
	}
	if len(names) == 0 {
		names = []string{"none"}
	}
	return doc, strings.Join(names, "+")
}

// genC16Msg draws a message of a random type with boundary-directed fields and returns the
// cells (field/class) it exercises.
func genC16Msg(t *rapid.T) (sdk.Msg, []string) {
	var cells []string
	cell := func(f string, v fieldVal) string {
		cells = append(cells, f+":"+v.class)
		return v.s
	}
	addr := func(f string) string { return cell(f, genAddr(t, f)) }
	topic := func() string {
		if rapid.IntRange(0, 2).Draw(t, "topic-valid") > 0 {
			return cell("topic", fieldVal{rapid.SampledFrom([]string{"a", "A.b_c-9", sized(70, "t")}).Draw(t, "topic-v"), "valid"})
		}
		return cell("topic", genBounded(t, "topic", 1, 70, true))
	}
	desc := func() string {
		if rapid.IntRange(0, 2).Draw(t, "desc-valid") > 0 {
			return cell("description", fieldVal{"d", "valid"})
		}
		return cell("description", genBounded(t, "desc", 0, 5000, false))
	}
	pstr := func(f string) string {
		return cell(f, rapid.SampledFrom([]fieldVal{{"x", "present"}, {"x", "present"}, {"", "empty"}, {" ", "blank"}, {"a\x00b", "nul"}, {"\x00a", "leading-nul"}, {"\x00", "only-nul"}, {"a\x00", "trailing-nul"}, {"\x00a\x00", "nul-both-ends"}, {sized(300, "z"), "long"}, {"\xff", "invalid-utf8"}}).Draw(t, f))
	}
	switch rapid.IntRange(0, 13).Draw(t, "msgtype") {
	case 0:
		return &aoltypes.MsgCreateTopicRequest{TopicName: topic(), Description: desc(), OwnerAddress: addr("owner")}, cells
	case 1:
		mon := cell("moniker", fieldVal{"m", "valid"})
		if rapid.IntRange(0, 1).Draw(t, "moniker-b") == 0 {
			mon = cell("moniker", genBounded(t, "moniker", 0, 70, true))
		}
		return &aoltypes.MsgAddWriterRequest{TopicName: topic(), Moniker: mon, Description: desc(), WriterAddress: addr("writer"), OwnerAddress: addr("owner")}, cells
	case 2:
		return &aoltypes.MsgDeleteWriterRequest{TopicName: topic(), WriterAddress: addr("writer"), OwnerAddress: addr("owner")}, cells
	case 3:
		k, kc := genBytesField(t, "key", 70)
		v, vc := genBytesField(t, "value", 5000)
		cells = append(cells, "key:"+kc, "value:"+vc)
		fp := ""
		if rapid.Bool().Draw(t, "has-fp") {
			fp = addr("fee_payer")
		}
		return &aoltypes.MsgAddRecordRequest{TopicName: topic(), Key: k, Value: v, WriterAddress: addr("writer"), OwnerAddress: addr("owner"), FeePayerAddress: fp}, cells
	case 4, 5:
		did := cell("did", genDID(t, "did"))
		docDID := did
		if !world.DidOK(did) || rapid.IntRange(0, 5).Draw(t, "doc-other-did") == 0 {
			docDID = world.DIDKeys()[1].DID()
		}
		doc, dn := genC16Doc(t, docDID)
		cells = append(cells, "document:"+dn)
		sig := cell("signature", rapid.SampledFrom([]fieldVal{{"sig", "present"}, {"sig", "present"}, {"sig", "present"}, {"sig", "present"}, {"sig", "present"}, {"", "empty"}}).Draw(t, "sig"))
		if rapid.Bool().Draw(t, "create") {
			return &didtypes.MsgCreateDIDRequest{Did: did, Document: doc, VerificationMethodId: docDID + "#key1", Signature: []byte(sig), FromAddress: addr("from")}, cells
		}
		return &didtypes.MsgUpdateDIDRequest{Did: did, Document: doc, VerificationMethodId: docDID + "#key1", Signature: []byte(sig), FromAddress: addr("from")}, cells
	case 6:
		sig := cell("signature", rapid.SampledFrom([]fieldVal{{"sig", "present"}, {"", "empty"}}).Draw(t, "sig"))
		return &didtypes.MsgDeactivateDIDRequest{Did: cell("did", genDID(t, "did")), VerificationMethodId: pstr("vmid"), Signature: []byte(sig), FromAddress: addr("from")}, cells
	case 7:
		return &pnfttypes.MsgCreateDenomRequest{Id: pstr("id"), Name: pstr("name"), Symbol: pstr("symbol"), Description: pstr("description"), Creator: addr("creator")}, cells
	case 8:
		return &pnfttypes.MsgUpdateDenomRequest{Id: pstr("id"), Name: pstr("name"), Updater: addr("updater")}, cells
	case 9:
		return &pnfttypes.MsgDeleteDenomRequest{Id: pstr("id"), Remover: addr("remover")}, cells
	case 10:
		return &pnfttypes.MsgTransferDenomRequest{Id: pstr("id"), Sender: addr("sender"), Receiver: addr("receiver")}, cells
	case 11:
		return &pnfttypes.MsgMintPNFTRequest{DenomId: pstr("denom_id"), Id: pstr("id"), Name: pstr("name"), Creator: addr("creator")}, cells
	case 12:
		return &pnfttypes.MsgTransferPNFTRequest{DenomId: pstr("denom_id"), Id: pstr("id"), Sender: addr("sender"), Receiver: addr("receiver")}, cells
	default:
		return &pnfttypes.MsgBurnPNFTRequest{DenomId: pstr("denom_id"), Id: pstr("id"), Burner: addr("burner")}, cells
	}
}

// wireRoundTrip returns the message as a node sees it: decoded from its protobuf encoding.
func wireRoundTrip(m sdk.Msg) (sdk.Msg, error) {
	bz, err := proto.Marshal(m)
	if err != nil {
		return nil, err
	}
	out := proto.Clone(m)
	out.Reset()
	if err := proto.Unmarshal(bz, out); err != nil {
		return nil, err
	}
	return out.(sdk.Msg), nil
}

// checkStateless compares ValidateBasic with the oracle for one message.
func checkStateless(m sdk.Msg) (msg string, want world.Verdict, got bool) {
	m2, err := wireRoundTrip(m)
	if err != nil {
		return "", world.Undetermined, false
	}
	want = world.StatelessVerdict(m2)
	got = safeValidate(m2) == nil
	if want == world.Undetermined {
		return "", want, got
	}
	if got != (want == world.Accept) {
		verb := map[bool]string{true: "accepts", false: "rejects"}[got]
		return fmt.Sprintf("stateless validation %s %T although the documented limits say the opposite: %s (%v)", verb, m2, trunc([]byte(fmt.Sprintf("%v", m2)), 400), safeValidate(m2)), want, got
	}
	return "", want, got
}

// TestC16Charset enumerates completely every single-byte deviation from the documented
// character set of topic names and monikers: all 256 byte values x {first, middle, last}
// position x {1, 35, 70}-byte strings.
func TestC16Charset(t *testing.T) {
	st := newPureStats("C16")
	defer st.flush()
	a := simnet.NewAccount("a0").Bech
	n := 0
	for b := 0; b < 256; b++ {
		for _, ln := range []int{1, 35, 70} {
			for _, pos := range []int{0, ln / 2, ln - 1} {
				bs := []byte(sized(ln, "a"))
				bs[pos] = byte(b)
				v := string(bs)
				msgs := []sdk.Msg{
					&aoltypes.MsgCreateTopicRequest{TopicName: v, OwnerAddress: a},
					&aoltypes.MsgAddWriterRequest{TopicName: "t", Moniker: v, WriterAddress: a, OwnerAddress: a},
					&aoltypes.MsgDeleteWriterRequest{TopicName: v, WriterAddress: a, OwnerAddress: a},
					&aoltypes.MsgAddRecordRequest{TopicName: v, WriterAddress: a, OwnerAddress: a},
				}
				for _, m := range msgs {
					if msg, _, _ := checkStateless(m); msg != "" {
						bz, _ := proto.Marshal(m)
						failPure(t, "C16", "c16-msg", map[string]interface{}{"type_url": sdk.MsgTypeURL(m), "value_b64": base64.StdEncoding.EncodeToString(bz)}, "%s", msg)
					}
					bz, _ := proto.Marshal(m)
					st.add(true, hash8(bz, []byte(sdk.MsgTypeURL(m))), nil, "charset sweep")
					n++
				}
			}
		}
	}
	st.extra["charset_sweep_exhaustive"] = true
	st.extra["charset_sweep_cases"] = n
}

func TestC16(t *testing.T) {
	st := newPureStats("C16")
	defer st.flush()
	rapid.Check(t, func(rt *rapid.T) {
		m, cells := genC16Msg(rt)
		msg, want, got := checkStateless(m)
		if msg != "" {
			bz, _ := proto.Marshal(m)
			failPure(rt, "C16", "c16-msg", map[string]interface{}{"type_url": sdk.MsgTypeURL(m), "value_b64": base64.StdEncoding.EncodeToString(bz)}, "%s", msg)
		}
		labels := []string{}
		v := map[world.Verdict]string{world.Accept: "accept", world.Reject: "reject", world.Undetermined: "not-asserted"}[want]
		short := sdk.MsgTypeURL(m)[strings.LastIndex(sdk.MsgTypeURL(m), ".")+1:]
		for _, c := range cells {
			labels = append(labels, "cell "+short+"/"+c+" => "+v)
		}
		labels = append(labels, "world.Verdict "+v)
		_ = got
		bz, _ := proto.Marshal(m)
		// non-trivial: at most one cell is off its valid/inside class (a single boundary probe)
		off := 0
		for _, c := range cells {
			if !(strings.HasSuffix(c, ":valid") || strings.HasSuffix(c, ":present") || strings.HasSuffix(c, "/charset") && strings.Contains(c, "len-") || strings.HasSuffix(c, ":none")) {
				off++
			}
		}
		st.add(off <= 1 && want != world.Undetermined, hash8(bz, []byte(sdk.MsgTypeURL(m))), map[string]interface{}{"msg": trunc([]byte(fmt.Sprintf("%T %v", m, m)), 300), "cells": cells, "world.Verdict": v}, labels...)
	})
}

func init() {
	otherReplays["c16-msg"] = func(t *testing.T, raw []byte) {
		var doc struct {
			Input world.MsgJSON `json:"input"`
		}
		if err := json.Unmarshal(raw, &doc); err != nil {
			t.Fatal(err)
		}
		w, err := world.New(world.Options{Prop: "none"})
		if err != nil {
			t.Fatal(err)
		}
		m, err := w.DecodeMsg(doc.Input)
		if err != nil {
			t.Fatal(err)
		}
		if msg, _, _ := checkStateless(m); msg != "" {
			fmt.Printf("REPLAY-VIOLATION property=C16 %s\n", msg)
			t.Fatalf("violation reproduced: %s", msg)
		}
	}
}
