package props

import (
	"encoding/json"
	"fmt"
	"strings"
	"time"

	"github.com/cosmos/cosmos-sdk/codec"
	sdk "github.com/cosmos/cosmos-sdk/types"
	pnfttypes "github.com/medibloc/panacea-core/v2/x/pnft/types"

	"verifharness/world"
)

var pnftURLs = []string{
	"/panacea.pnft.v2.MsgCreateDenomRequest", "/panacea.pnft.v2.MsgUpdateDenomRequest", "/panacea.pnft.v2.MsgDeleteDenomRequest",
	"/panacea.pnft.v2.MsgTransferDenomRequest", "/panacea.pnft.v2.MsgMintPNFTRequest", "/panacea.pnft.v2.MsgTransferPNFTRequest",
	"/panacea.pnft.v2.MsgBurnPNFTRequest",
}

// idPool: identifiers that are prefixes/extensions of one another. With adversarial=true it
// also contains separators, NUL bytes, invalid UTF-8 and very long ids.
func (g *G) idPool(adversarial bool) []string {
	// " a" / "a\t": equal to "a" after trimming white space, distinct as identifiers
	// "a/b" + "a" and "a" + "b/a" read the same when joined with "/"
	ids := []string{"a", "ab", "abc", "b", "A", "a/", "a b", "a-1", " a", "a\t", "a/b", "b/a"}
	if adversarial {
		// "%61" and "a%2Fb" are the percent-encoded spellings of "a" and "a/b": different ids
		ids = append(ids, strings.Repeat("z", 300), "/", "é", "%61", "a%2Fb")
		if !g.W.Opt.Open["C08-invalid-utf8-export"] {
			ids = append(ids, "a\xffb")
		} else {
			g.W.Excluded["C08-invalid-utf8-export"]++
		}
		if !g.W.Opt.Open["C12-nul-aliasing"] {
			ids = append(ids, "a\x00b", "\x00", "\x00a")
		} else {
			g.W.Excluded["C12-nul-aliasing"]++
		}
	}
	return ids
}

// genPnftMsg draws one PNFT message; actor is chosen independently of ownership.
func (g *G) genPnftMsg() (sdk.Msg, string) {
	w := g.W
	m := w.PNFT
	adv := g.bias("adversarial-ids", 0) > 0
	ids := g.idPool(adv)
	denoms := sortedKeys(m.Denoms)
	var toks []world.TokenKey
	for k := range m.Tokens {
		toks = append(toks, k)
	}
	sortTokenKeys(toks)
	kind := g.weighted("pnft-kind", "create", 3, "update", 2, "delete", 1, "handover", g.bias("pnft-handover", 3), "mint", 6, "transfer", g.bias("pnft-transfer", 4), "burn", 2)
	if len(denoms) == 0 && g.chance("bootstrap", 85) {
		kind = "create"
	}
	actor := g.acct("actor")
	denom := pick(g, "denom-id", ids)
	if len(denoms) > 0 && kind != "create" && g.chance("aim-denom", 88) {
		denom = pick(g, "existing-denom", denoms)
	}
	if adv {
		// oversized identifiers (> 255 bytes) are part of the hostile domain: make sure a denom
		// with such an id comes to exist and holds tokens
		long := ""
		for _, id := range denoms {
			if len(id) > 255 {
				long = id
			}
		}
		switch {
		case long == "" && kind == "create" && g.chance("create-long-denom", 35):
			denom = strings.Repeat("z", 300)
		case long != "" && kind != "create" && g.chance("aim-long-denom", 30):
			denom = long
		}
	}
	d := m.Denoms[denom]
	ownerAct := func(addr []byte) {
		if i := w.AcctIndex(sdk.AccAddress(addr).String()); i >= 0 {
			actor = i
		}
	}
	// a former owner (after a hand-over) tries again
	formerAct := func(set map[string]bool) bool {
		if len(set) == 0 || !g.chance("by-former-owner", g.bias("former-owner", 20)) {
			return false
		}
		ownerAct([]byte(pick(g, "former", sortedKeys(set))))
		return true
	}
	receiver := func() string {
		if g.chance("ghost-receiver", 8) {
			return pick(g, "ghost", ghostAddresses())
		}
		return g.addrString("receiver-spelling", g.acct("receiver"))
	}
	if kind == "create" && len(m.DeletedDenoms) > 0 && g.chance("recreate-deleted", 35) {
		// an identifier that existed once, possibly under another owner
		denom = pick(g, "deleted-denom", sortedKeys(m.DeletedDenoms))
	}
	switch kind {
	case "create":
		return &pnfttypes.MsgCreateDenomRequest{Id: denom, Name: pick(g, "name", []string{"n", "Name"}), Symbol: "S",
			Description: pick(g, "desc", []string{"", "d"}), Uri: pick(g, "uri", []string{"", "u"}), UriHash: "", Data: pick(g, "data", []string{"", "{}"}),
			Creator: g.addrString("creator-spelling", actor)}, "create-denom"
	case "update":
		if formerAct(m.FormerDenomOwner[denom]) {
		} else if d != nil && g.chance("by-owner", g.bias("by-owner", 65)) {
			ownerAct(d.OwnerAddr)
		}
		// values with surrounding white space are stored as given
		return &pnfttypes.MsgUpdateDenomRequest{Id: denom, Name: pick(g, "name", []string{"", "n2", "n2 ", " "}), Symbol: pick(g, "sym", []string{"", "S2", " S2", "\t"}),
			Description: pick(g, "desc", []string{"", "d2", " d2 "}), Uri: pick(g, "uri", []string{"", "", "u2", "u2\n"}), UriHash: pick(g, "urihash", []string{"", "", "h2 "}),
			Data: pick(g, "data", []string{"", "x", " x"}), Updater: g.addrString("updater-spelling", actor)}, "update-denom"
	case "delete":
		if formerAct(m.FormerDenomOwner[denom]) {
		} else if d != nil && g.chance("by-owner", g.bias("by-owner", 65)) {
			ownerAct(d.OwnerAddr)
		}
		if d != nil && len(m.TokensOf(denom)) > 0 && w.Opt.Open["C12-orphan-tokens"] {
			// open finding: deleting a non-empty denom orphans its tokens; excluded by construction
			w.Excluded["C12-orphan-tokens"]++
			return &pnfttypes.MsgUpdateDenomRequest{Id: denom, Name: "renamed", Updater: g.bech(actor)}, "update-denom(instead of delete)"
		}
		return &pnfttypes.MsgDeleteDenomRequest{Id: denom, Remover: g.bech(actor)}, "delete-denom"
	case "handover":
		if formerAct(m.FormerDenomOwner[denom]) {
		} else if d != nil && g.chance("by-owner", g.bias("by-owner", 70)) {
			ownerAct(d.OwnerAddr)
		}
		return &pnfttypes.MsgTransferDenomRequest{Id: denom, Sender: g.bech(actor), Receiver: receiver()}, "transfer-denom"
	case "mint":
		if formerAct(m.FormerDenomOwner[denom]) {
		} else if d != nil && g.chance("by-owner", g.bias("by-owner", 75)) {
			ownerAct(d.OwnerAddr)
		}
		id := pick(g, "token-id", ids)
		var joined []string
		for _, k := range toks {
			// an existing token <d1,t1> whose "d1/t1" also reads as "<this denom>/<something>"
			if full := k.Denom + "/" + k.ID; k.Denom != denom && strings.HasPrefix(full, denom+"/") && len(full) > len(denom)+1 {
				joined = append(joined, full[len(denom)+1:])
			}
		}
		if len(joined) > 0 && g.chance("join-collision", 40) {
			id = pick(g, "joined-id", joined)
		} else if ex := m.TokensOf(denom); len(ex) > 0 && g.chance("look-alike-id", 18) {
			// an id that differs from an existing one of this denom by surrounding white space only
			base := strings.TrimSpace(ex[g.intn("look-alike-of", len(ex))].ID)
			if base != "" {
				id = pick(g, "look-alike", []string{" " + base, base + "\t", base + " ", base})
			}
		} else if g.chance("remint-burned", 20) {
			// a token id that was burned in this denom earlier
			var burned []string
			for k := range m.BurnedTokens {
				if k.Denom == denom {
					burned = append(burned, k.ID)
				}
			}
			if len(burned) > 0 {
				sortStrings(burned)
				id = pick(g, "burned-token", burned)
			}
		}
		cr := g.bech(actor)
		if d != nil && g.chance("same-spelling", 90) && w.AcctIndex(canonStr(d.Owner)) == actor {
			cr = d.Owner
		}
		return &pnfttypes.MsgMintPNFTRequest{DenomId: denom, Id: id, Name: "t", Description: pick(g, "desc", []string{"", "d"}),
			Uri: pick(g, "uri", []string{"", "u"}), UriHash: pick(g, "hash", []string{"", "h"}), Data: pick(g, "data", []string{"", "{}"}), Creator: cr}, "mint"
	}
	// transfer / burn aim at an existing token
	tk := world.TokenKey{Denom: denom, ID: pick(g, "token-id", ids)}
	if len(toks) > 0 && g.chance("aim-token", 88) {
		tk = pick(g, "existing-token", toks)
	}
	siblingActed := false
	if t := m.Tokens[tk]; t != nil && g.chance("by-sibling-holder", 30) {
		// the holder of another token of the same denom (preferably one whose id looks alike)
		var sib, alike []*world.PnftToken
		for _, o := range m.TokensOf(tk.Denom) {
			if o.ID != tk.ID && string(o.Owner) != string(t.Owner) {
				sib = append(sib, o)
				if strings.TrimSpace(o.ID) == strings.TrimSpace(tk.ID) {
					alike = append(alike, o)
				}
			}
		}
		if len(alike) > 0 {
			sib = alike
		}
		if len(sib) > 0 {
			ownerAct(sib[g.intn("sibling", len(sib))].Owner)
			siblingActed = true
		}
	}
	if siblingActed {
	} else if formerAct(m.FormerTokenOwner[tk]) {
	} else if t := m.Tokens[tk]; t != nil && g.chance("by-owner", g.bias("by-owner", 65)) {
		ownerAct(t.Owner)
	}
	if kind == "transfer" {
		return &pnfttypes.MsgTransferPNFTRequest{DenomId: tk.Denom, Id: tk.ID, Sender: g.bech(actor), Receiver: receiver()}, "transfer-pnft"
	}
	return &pnfttypes.MsgBurnPNFTRequest{DenomId: tk.Denom, Id: tk.ID, Burner: g.bech(actor)}, "burn-pnft"
}

func canonStr(s string) string {
	a, err := sdk.AccAddressFromBech32(s)
	if err != nil {
		return s
	}
	return a.String()
}

func sortTokenKeys(ks []world.TokenKey) {
	for i := 1; i < len(ks); i++ {
		for j := i; j > 0 && (ks[j].Denom < ks[j-1].Denom || ks[j].Denom == ks[j-1].Denom && ks[j].ID < ks[j-1].ID); j-- {
			ks[j], ks[j-1] = ks[j-1], ks[j]
		}
	}
}

func (g *G) genPnftTx() *world.TxStep {
	n := 1
	if g.chance("multi", g.bias("multi", 8)) {
		n = 2
	}
	if n > 1 && g.chance("chain", g.bias("chain", 60)) {
		msgs, note := g.genChain(g.genPnftMsg, n, g.chance("poison", g.bias("poison", 45)))
		return g.wrapTx(msgs, note, false)
	}
	var msgs []sdk.Msg
	note := ""
	for i := 0; i < n; i++ {
		m, nt := g.genPnftMsg()
		msgs = append(msgs, m)
		note += nt + ";"
	}
	// PNFT messages do not implement the legacy amino-JSON message interface
	return g.wrapTx(msgs, note, false)
}

// genPnftGenesis draws a pnft genesis section InitChain accepts: denoms whose owner strings
// are canonical, upper-case, addresses of other lengths or no address at all (the genesis
// validation only demands a non-empty owner), and tokens held by any valid address. With
// lax=true tokens may lack created_at, which the offline validate-genesis refuses but
// InitChain imports.
func (g *G) genPnftGenesis(cdc codec.JSONCodec, lax bool) json.RawMessage {
	gs := pnfttypes.DefaultGenesis()
	ids := []string{"a", "ab", "abc", "b", "A", "a/", "a b", "a-1"}
	acct := func(label string) string { return g.W0Accts[g.intn(label, len(g.W0Accts))].Addr.String() }
	owner := func(label string, mayGarbage bool) string {
		kinds := []interface{}{"canonical", 6, "upper", 2, "ghost", 2}
		if mayGarbage {
			kinds = append(kinds, "garbage", 2)
		}
		switch g.weighted(label+"-kind", kinds...) {
		case "upper":
			return strings.ToUpper(acct(label))
		case "ghost":
			return pick(g, label+"-ghost", ghostAddresses())
		case "garbage":
			return pick(g, label+"-garbage", []string{"not-an-address", "panacea1", "cosmos1qypqxpq9qcrsszg2pvxq6rs0zqg3yyc5lzv7xu", " "})
		}
		return acct(label)
	}
	created := time.Date(2023, 5, 6, 7, 8, 9, 0, time.UTC)
	seen := map[string]bool{}
	n := 1 + g.intn("gen-denoms", 4)
	for i := 0; i < n; i++ {
		id := pick(g, "gen-denom-id", ids)
		if seen[id] {
			continue
		}
		seen[id] = true
		gs.Denoms = append(gs.Denoms, &pnfttypes.Denom{Id: id, Name: "n", Symbol: "S", Description: pick(g, "gen-desc", []string{"", "from genesis"}),
			Uri: pick(g, "gen-uri", []string{"", "u"}), Data: pick(g, "gen-data", []string{"", "{}"}), Owner: owner("gen-denom-owner", true)})
		tseen := map[string]bool{}
		for j := g.intn("gen-tokens", 4); j > 0; j-- {
			tid := pick(g, "gen-token-id", ids)
			if tseen[tid] {
				continue
			}
			tseen[tid] = true
			at := created.Add(time.Duration(j) * time.Second)
			if lax && g.chance("gen-no-created-at", 25) {
				at = time.Time{}
			}
			gs.Pnfts = append(gs.Pnfts, &pnfttypes.Pnft{DenomId: id, Id: tid, Name: "t", Description: "", Uri: pick(g, "gen-turi", []string{"", "u"}),
				Data: pick(g, "gen-tdata", []string{"", "x"}), Creator: owner("gen-token-creator", true), Owner: owner("gen-token-owner", false), CreatedAt: at})
		}
	}
	if g.chance("gen-many-denoms", g.bias("big-listing", 15)) {
		// more denoms than any default page size, the last ones holding tokens
		n := 101 + g.intn("gen-many-n", 40)
		for j := 0; j < n; j++ {
			id := fmt.Sprintf("m%03d", j)
			own := acct("gen-many-owner")
			gs.Denoms = append(gs.Denoms, &pnfttypes.Denom{Id: id, Name: "n", Symbol: "S", Owner: own})
			if j >= n-3 || g.chance("gen-many-token", 5) {
				gs.Pnfts = append(gs.Pnfts, &pnfttypes.Pnft{DenomId: id, Id: "t", Name: "t", Creator: own, Owner: acct("gen-many-holder"), CreatedAt: created})
			}
		}
	}
	if g.chance("gen-big-holding", g.bias("big-listing", 15)) {
		// one owner holds more tokens of one denom than any default page size
		id := "big"
		holder := acct("gen-big-holder")
		gs.Denoms = append(gs.Denoms, &pnfttypes.Denom{Id: id, Name: "n", Symbol: "S", Owner: holder})
		for j := 0; j < 101+g.intn("gen-big-n", 40); j++ {
			gs.Pnfts = append(gs.Pnfts, &pnfttypes.Pnft{DenomId: id, Id: fmt.Sprintf("t%03d", j), Name: "t", Creator: holder, Owner: holder, CreatedAt: created})
		}
	}
	bz, err := cdc.MarshalJSON(gs)
	if err != nil {
		panic(err)
	}
	return bz
}
