package props

import (
	"encoding/json"
	"fmt"
	"strings"

	"github.com/cosmos/cosmos-sdk/codec"

	sdk "github.com/cosmos/cosmos-sdk/types"
	aoltypes "github.com/medibloc/panacea-core/v2/x/aol/types"

	"verifharness/world"
)

var aolURLs = []string{
	"/panacea.aol.v2.MsgCreateTopicRequest", "/panacea.aol.v2.MsgAddWriterRequest",
	"/panacea.aol.v2.MsgDeleteWriterRequest", "/panacea.aol.v2.MsgAddRecordRequest",
}

// topicPool is built to collide: prefixes/extensions of one another, case variants,
// separators, and two 70-byte names sharing a 69-byte prefix.
func topicPool() []string {
	long := strings.Repeat("t", 69)
	// the last two are outside the documented charset: refused by stateless validation on a
	// correct tree, but if a change lets them through they reach the genesis string keys
	return []string{"a", "ab", "abc", "a.b", "A", "a-b", "b", long + "1", long + "2", long, ".", "..", "a/b", "a b"}
}

// genAolMsg draws one AOL message using the model to aim at existing or missing objects.
func (g *G) genAolMsg() (sdk.Msg, string) {
	m := g.W.AOL
	topics := topicPool()
	existing := []*world.AolTopic{}
	for _, k := range sortedKeys(m.Topics) {
		existing = append(existing, m.Topics[k])
	}
	kind := g.weighted("aol-kind", "create", g.bias("aol-create", 2), "addw", 3, "delw", g.bias("aol-delw", 2), "rec", g.bias("aol-rec", 10))
	if len(existing) == 0 && g.chance("bootstrap", 80) {
		kind = "create"
	}
	owner := g.intn("owner", g.bias("aol-owners", 4))
	if g.W.Group.Policy != "" && len(g.W.Accts) > world.NumAccounts && g.chance("group-policy-owner", g.bias("group-actor", 12)) {
		owner = world.NumAccounts // the group policy account (32-byte address) owns topics too
	}
	topic := pick(g, "topic", topics)
	// aim at an existing topic most of the time
	if len(existing) > 0 && kind != "create" && g.chance("aim-existing", 88) {
		cands := existing
		if kind == "rec" || kind == "delw" {
			// prefer topics that currently list writers
			var withW []*world.AolTopic
			for _, t := range existing {
				if len(t.Writers) > 0 {
					withW = append(withW, t)
				}
			}
			if len(withW) > 0 && g.chance("aim-writable", 80) {
				cands = withW
			}
		}
		t := pick(g, "existing-topic", cands)
		if i := g.W.AcctIndex(sdk.AccAddress(t.Owner).String()); i >= 0 {
			owner, topic = i, t.Name
		}
		if (kind == "rec" || kind == "delw") && len(t.Writers) == 0 && g.chance("list-first", 75) {
			kind = "addw"
		}
	}
	if kind == "create" && len(existing) > 0 && g.chance("same-name-other-owner", 35) {
		topic = pick(g, "existing-topic-name", existing).Name
	}
	var dangling *world.AolTopic
	if len(m.Dangling) > 0 && g.chance("aim-dangling", 30) {
		// writer entries a genesis left under a pair that has no topic
		d := m.Dangling[pick(g, "dangling", sortedKeys(m.Dangling))]
		if i := g.W.AcctIndex(sdk.AccAddress(d.Owner).String()); i >= 0 {
			owner, topic, dangling = i, d.Name, d
			kind = g.weighted("dangling-kind", "rec", 6, "delw", 1, "create", 1, "addw", 1)
		}
	}
	ownerStr := g.addrString("owner-spelling", owner)
	cur := m.Topic(g.W.Accts[owner].Addr.Bytes(), topic)
	if cur == nil && dangling != nil {
		cur = dangling
	}
	switch kind {
	case "create":
		desc := pick(g, "desc", []string{"", "d", strings.Repeat("x", 5000)})
		return &aoltypes.MsgCreateTopicRequest{TopicName: topic, Description: desc, OwnerAddress: ownerStr}, "create-topic"
	case "addw":
		wr := g.acct("writer")
		mon := pick(g, "moniker", []string{"", "m", "w.1_-", strings.Repeat("m", 70)})
		return &aoltypes.MsgAddWriterRequest{TopicName: topic, Moniker: mon, Description: pick(g, "wdesc", []string{"", "writer"}),
			WriterAddress: g.addrString("writer-spelling", wr), OwnerAddress: ownerStr}, "add-writer"
	case "delw":
		wr := g.acct("writer")
		if cur != nil && len(cur.Writers) > 0 && g.chance("aim-listed", 80) {
			ws := sortedKeys(cur.Writers)
			if i := g.W.AcctIndex(sdk.AccAddress([]byte(pick(g, "listed", ws))).String()); i >= 0 {
				wr = i
			}
		}
		return &aoltypes.MsgDeleteWriterRequest{TopicName: topic, WriterAddress: g.bech(wr), OwnerAddress: ownerStr}, "delete-writer"
	default:
		wr := g.acct("writer")
		if cur != nil && len(cur.Writers) > 0 && g.chance("aim-listed", 75) {
			ws := sortedKeys(cur.Writers)
			if i := g.W.AcctIndex(sdk.AccAddress([]byte(pick(g, "listed", ws))).String()); i >= 0 {
				wr = i
			}
		}
		key := pick(g, "rkey", [][]byte{nil, []byte("k"), []byte(strings.Repeat("k", 70)), {0x00, 0xff}})
		val := pick(g, "rval", [][]byte{nil, []byte("v"), []byte(strings.Repeat("v", 5000)), {0x00}})
		fp := ""
		if g.chance("fee-payer", g.bias("fee-payer", 30)) {
			switch g.weighted("payer-role", "any", 5, "owner", 3, "writer", 2) {
			case "owner":
				fp = g.bech(owner)
			case "writer":
				fp = g.bech(wr)
			default:
				fp = g.bech(g.acct("payer"))
			}
		}
		return &aoltypes.MsgAddRecordRequest{TopicName: topic, Key: key, Value: val, WriterAddress: g.addrString("writer-spelling", wr),
			OwnerAddress: ownerStr, FeePayerAddress: fp}, "add-record"
	}
}

// genAolTx draws a transaction of one or more AOL messages.
func (g *G) genAolTx() *world.TxStep {
	n := 1
	if g.chance("multi", g.bias("multi", 12)) {
		n = 2 + g.intn("nmsgs", 2)
	}
	if n > 1 && g.chance("chain", g.bias("chain", 60)) {
		msgs, note := g.genChain(g.genAolMsg, n, g.chance("poison", g.bias("poison", 45)))
		return g.wrapTx(msgs, note, true)
	}
	var msgs []sdk.Msg
	var notes []string
	for i := 0; i < n; i++ {
		m, note := g.genAolMsg()
		msgs = append(msgs, m)
		notes = append(notes, note)
	}
	return g.wrapTx(msgs, strings.Join(notes, "+"), true)
}

func sortedKeys[V any](m map[string]V) []string {
	return world.SortedKeys(m)
}

// genAolGenesis draws an aol genesis section whose owners have addresses of legal lengths
// 1..255 that are byte-prefixes of one another (reachable only through genesis: nobody can
// sign for them), with prefix-related topic names, writers and records.
func (g *G) genAolGenesis(cdc codec.JSONCodec, dangling bool) json.RawMessage {
	gs := aoltypes.DefaultGenesis()
	base := make([]byte, 255)
	for i := range base {
		base[i] = byte(i%7 + 1)
	}
	lens := []int{1, 2, 19, 20, 21, 32, 254, 255}
	nOwners := 2 + g.intn("gen-owners", 4)
	nano := int64(1700000000000000000)
	for i := 0; i < nOwners; i++ {
		o := sdk.AccAddress(base[:pick(g, "owner-len", lens)])
		if g.chance("real-owner", 25) {
			o = g.W0Accts[g.intn("real-owner-idx", len(g.W0Accts))].Addr
		}
		if _, dup := gs.Owners[o.String()]; dup {
			continue
		}
		nT := 1 + g.intn("gen-topics", 4)
		names := map[string]bool{}
		valid := topicPool()[:12] // names inside the documented charset only: a genesis must be valid
		for len(names) < nT {
			names[pick(g, "gen-topic", valid)] = true
		}
		gs.Owners[o.String()] = &aoltypes.Owner{TotalTopics: uint64(len(names))}
		for _, name := range sortedKeys(names) {
			nW := g.intn("gen-writers", 4)
			ws := map[string]bool{}
			for j := 0; j < nW; j++ {
				wa := sdk.AccAddress(base[:pick(g, "writer-len", lens)])
				if g.chance("real-writer", 50) {
					wa = g.W0Accts[g.intn("real-writer-idx", len(g.W0Accts))].Addr
				}
				ws[wa.String()] = true
			}
			nR := g.intn("gen-records", 4)
			gs.Topics[o.String()+"/"+name] = &aoltypes.Topic{Description: "genesis", TotalWriters: uint64(len(ws)), TotalRecords: uint64(nR)}
			for _, wa := range sortedKeys(ws) {
				gs.Writers[o.String()+"/"+name+"/"+wa] = &aoltypes.Writer{Moniker: "m", Description: "", NanoTimestamp: nano}
			}
			for r := 0; r < nR; r++ {
				gs.Records[fmt.Sprintf("%s/%s/%d", o.String(), name, r)] = &aoltypes.Record{Key: []byte{byte(r)}, Value: []byte("v"), NanoTimestamp: nano + int64(r), WriterAddress: o.String()}
			}
		}
	}
	// one owner with more topics, and one topic with more writers, than the default page size
	if g.chance("over-default-page", g.bias("big-listing", 15)) {
		o := sdk.AccAddress(base[:33])
		nT := 101 + g.intn("big-topics", 25)
		gs.Owners[o.String()] = &aoltypes.Owner{TotalTopics: uint64(nT)}
		for i := 0; i < nT; i++ {
			name := fmt.Sprintf("t%03d", i)
			tp := &aoltypes.Topic{Description: "big"}
			if i == 0 {
				nW := 101 + g.intn("big-writers", 15)
				tp.TotalWriters = uint64(nW)
				for j := 0; j < nW; j++ {
					wa := sdk.AccAddress(append([]byte{0xEE, byte(j)}, base[:18]...))
					gs.Writers[o.String()+"/"+name+"/"+wa.String()] = &aoltypes.Writer{Moniker: "m", NanoTimestamp: nano}
				}
			}
			gs.Topics[o.String()+"/"+name] = tp
		}
	}
	if dangling {
		// referentially inconsistent but valid: writer entries under pairs that have no topic
		// entry (GenesisState.Validate performs no such check)
		n := 1 + g.intn("dangling-n", 3)
		for i := 0; i < n; i++ {
			o := g.W0Accts[g.intn("dangling-owner", len(g.W0Accts))].Addr
			name := pick(g, "dangling-topic", topicPool()[:12])
			if _, exists := gs.Topics[o.String()+"/"+name]; exists {
				continue
			}
			wa := g.W0Accts[g.intn("dangling-writer", len(g.W0Accts))].Addr
			gs.Writers[o.String()+"/"+name+"/"+wa.String()] = &aoltypes.Writer{Moniker: "d", NanoTimestamp: nano}
		}
	}
	bz, err := cdc.MarshalJSON(gs)
	if err != nil {
		panic(err)
	}
	return bz
}
