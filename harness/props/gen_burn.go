package props

import (
	"fmt"
	consensustypes "github.com/cosmos/cosmos-sdk/x/consensus/types"

	sdk "github.com/cosmos/cosmos-sdk/types"
	authtypes "github.com/cosmos/cosmos-sdk/x/auth/types"
	vestingtypes "github.com/cosmos/cosmos-sdk/x/auth/vesting/types"
	banktypes "github.com/cosmos/cosmos-sdk/x/bank/types"
	crisistypes "github.com/cosmos/cosmos-sdk/x/crisis/types"
	distrtypes "github.com/cosmos/cosmos-sdk/x/distribution/types"
	govtypes "github.com/cosmos/cosmos-sdk/x/gov/types"
	govv1 "github.com/cosmos/cosmos-sdk/x/gov/types/v1"

	"verifharness/simnet"
	"verifharness/world"
)

func (g *G) coinsFor(label string) sdk.Coins {
	denoms := []string{simnet.FeeDenom, simnet.BondDenom, simnet.ThirdDenom}
	n := 1
	if g.chance(label+"-multi", 30) {
		n = 2 + g.intn(label+"-n", 2)
	}
	out := sdk.NewCoins()
	if g.chance(label+"-many-denoms", 7) {
		// dozens of denominations in one transfer
		for i, k := 0, 24+g.intn(label+"-many-n", simnet.ManyDenoms-23); i < k; i++ {
			out = out.Add(sdk.NewInt64Coin(fmt.Sprintf("v%02d", i), int64(1+g.intn(label+"-many-amt", 1000))))
		}
		return out
	}
	for i := 0; i < n; i++ {
		if g.chance(label+"-huge", 12) {
			// amounts at and beyond the int64 boundary
			h := pick(g, label+"-hugeamt", []string{"9223372036854775807", "9223372036854775808", "10000000000000000000", "18446744073709551616", "1000000000000000000000000000000"})
			amt, _ := sdk.NewIntFromString(h)
			out = out.Add(sdk.NewCoin(simnet.HugeDenom, amt))
			continue
		}
		d := pick(g, label+"-denom", denoms)
		amt := int64(pick(g, label+"-amt", []int{1, 2, 999, 1000000, 123456789, 400000000}))
		out = out.Add(sdk.NewInt64Coin(d, amt))
	}
	return out
}

// genBurnTx draws a way for coins to reach the burn address (or an account-shape change at
// that address).
func (g *G) genBurnTx() *world.TxStep {
	w := g.W
	from := g.acct("from")
	burn, _ := sdk.AccAddressFromBech32(world.BurnAddress)
	var msg sdk.Msg
	note := ""
	kind := g.weighted("burn-kind", "send", 10, "to-module-account", 2, "multisend", 3, "vesting", g.bias("vesting", 3), "permlock", g.bias("vesting", 3)/2+1, "periodic", g.bias("vesting", 3)/2+1)
	if w.Opt.Open["C07-vesting-burn-address"] && kind != "send" && kind != "multisend" {
		w.Excluded["C07-vesting-burn-address"]++
		kind = "send"
	}
	switch kind {
	case "to-module-account":
		// module accounts are blocked recipients; the burn module's own staging account exists
		// only after the first burn. (gov is deliberately receivable, as in the SDK's simapp, and
		// a direct transfer to it makes the SDK's gov InitGenesis refuse the exported genesis:
		// upstream behaviour, not generated)
		mod := pick(g, "module-account", []string{"burn", "burn", "fee_collector", "distribution", "mint", "bonded_tokens_pool"})
		msg = banktypes.NewMsgSend(w.Accts[from].Addr, authtypes.NewModuleAddress(mod), g.coinsFor("send"))
		note = "send-to-module-account-" + mod
	case "send":
		msg = banktypes.NewMsgSend(w.Accts[from].Addr, burn, g.coinsFor("send"))
		note = "send-to-burn"
	case "multisend":
		c := g.coinsFor("msend")
		other := w.Accts[g.acct("other-out")].Addr
		half := sdk.NewCoins()
		rest := sdk.NewCoins()
		for _, x := range c {
			h := x.Amount.QuoRaw(2)
			if h.IsPositive() {
				half = half.Add(sdk.NewCoin(x.Denom, h))
			}
			rest = rest.Add(sdk.NewCoin(x.Denom, x.Amount.Sub(h)))
		}
		outs := []banktypes.Output{banktypes.NewOutput(burn, rest)}
		if !half.IsZero() {
			outs = append(outs, banktypes.NewOutput(other, half))
		}
		msg = banktypes.NewMsgMultiSend([]banktypes.Input{banktypes.NewInput(w.Accts[from].Addr, c)}, outs)
		note = "multisend-to-burn"
	case "vesting":
		end := w.C.Time.Unix() + int64(pick(g, "vest-end", []int{-10, 1, 50, 100000, 10000000}))
		msg = vestingtypes.NewMsgCreateVestingAccount(w.Accts[from].Addr, burn, g.coinsFor("vest"), end, g.chance("delayed", 50))
		note = "create-vesting-at-burn"
	case "permlock":
		msg = vestingtypes.NewMsgCreatePermanentLockedAccount(w.Accts[from].Addr, burn, g.coinsFor("lock"))
		note = "create-permanent-locked-at-burn"
	default:
		var periods []vestingtypes.Period
		for i := 0; i < 1+g.intn("nperiods", 3); i++ {
			periods = append(periods, vestingtypes.Period{Length: int64(pick(g, "plen", []int{1, 10, 100000})), Amount: g.coinsFor(fmt.Sprintf("p%d", i))})
		}
		msg = vestingtypes.NewMsgCreatePeriodicVestingAccount(w.Accts[from].Addr, burn, w.C.Time.Unix()+int64(pick(g, "pstart", []int{-100, 0, 5, 1000})), periods)
		note = "create-periodic-vesting-at-burn"
	}
	signers, how := g.signersFor([]sdk.Msg{msg}, 0, 95, false)
	return &world.TxStep{Msgs: []world.MsgJSON{world.EncodeMsg(msg)}, Signers: signers, Fee: g.fee("fee"), Note: note + " signers=" + how}
}

// genGovTx draws one step of the governance route by which coins reach the burn address from
// inside EndBlock: fund the community pool, submit a proposal whose message pays the burn
// address out of the pool, vote with the bonded delegator (account 0). The proposal executes
// in the EndBlock of the first block whose time is past the voting period.
func (g *G) genGovTx() *world.TxStep {
	w := g.W
	ctx := w.C.Ctx()
	burn, _ := sdk.AccAddressFromBech32(world.BurnAddress)
	govAddr := authtypes.NewModuleAddress(govtypes.ModuleName)
	var voting []uint64
	w.C.App.GovKeeper.IterateProposals(ctx, func(p govv1.Proposal) bool {
		if p.Status == govv1.StatusVotingPeriod {
			voting = append(voting, p.Id)
		}
		return false
	})
	pool, _ := w.C.App.DistrKeeper.GetFeePoolCommunityCoins(ctx).TruncateDecimal()
	kind := g.weighted("gov-kind", "fund", 2, "submit", 4, "vote", 5)
	if kind == "vote" && len(voting) == 0 {
		kind = "submit"
	}
	if kind == "submit" && pool.IsZero() && g.chance("fund-first", 80) {
		kind = "fund"
	}
	var msg sdk.Msg
	note := ""
	switch kind {
	case "fund":
		msg = distrtypes.NewMsgFundCommunityPool(g.coinsFor("fund"), w.Accts[g.acct("depositor")].Addr)
		note = "fund-community-pool"
	case "submit":
		amt := sdk.NewCoins()
		for _, c := range pool {
			if g.chance("spend-"+c.Denom, 60) {
				a := c.Amount
				if g.chance("spend-part", 60) && a.GT(sdk.OneInt()) {
					a = a.QuoRaw(int64(2 + g.intn("spend-div", 5)))
				}
				amt = amt.Add(sdk.NewCoin(c.Denom, a))
			}
		}
		if amt.IsZero() {
			amt = sdk.NewCoins(sdk.NewInt64Coin(simnet.FeeDenom, int64(1+g.intn("spend-amt", 1000))))
		}
		var inner sdk.Msg = &distrtypes.MsgCommunityPoolSpend{Authority: govAddr.String(), Recipient: burn.String(), Amount: amt}
		title := "pay the burn address"
		if g.chance("gov-consensus-params", g.bias("gov-consensus-params", 20)) {
			// the chain's consensus parameters change through governance only; the limits stay far
			// above anything a generated block needs, so no transaction becomes inadmissible
			cp := simnet.ConsensusParams()
			cp.Block.MaxGas = pick(g, "max-gas", []int64{-1, 1_000_000_000, 100_000_000, 50_000_000})
			cp.Block.MaxBytes = pick(g, "max-bytes", []int64{22020096, 4194304, 10485760})
			cp.Evidence.MaxAgeNumBlocks = pick(g, "evidence-age", []int64{302400, 100000})
			inner = &consensustypes.MsgUpdateParams{Authority: govAddr.String(), Block: cp.Block, Evidence: cp.Evidence, Validator: cp.Validator}
			title = "change the consensus parameters"
		}
		dep := sdk.NewCoins(sdk.NewInt64Coin(simnet.BondDenom, int64(pick(g, "deposit", []int{10000000, 10000000, 20000000, 5000000}))))
		m, err := govv1.NewMsgSubmitProposal([]sdk.Msg{inner}, dep, w.Accts[g.acct("proposer")].Addr.String(), "", title, title)
		if err != nil {
			panic(err)
		}
		msg, note = m, "submit-proposal: "+title
	default:
		voter := 0
		if g.chance("other-voter", 10) {
			voter = g.acct("voter")
		}
		opt := govv1.OptionYes
		if g.chance("vote-no", 12) {
			opt = pick(g, "vote-option", []govv1.VoteOption{govv1.OptionNo, govv1.OptionNoWithVeto, govv1.OptionAbstain})
		}
		msg = govv1.NewMsgVote(w.Accts[voter].Addr, pick(g, "proposal", voting), opt, "")
		note = "vote-" + opt.String()
	}
	signers, how := g.signersFor([]sdk.Msg{msg}, 0, 97, false)
	return &world.TxStep{Msgs: []world.MsgJSON{world.EncodeMsg(msg)}, Signers: signers, Fee: g.fee("fee"), Note: note + " signers=" + how}
}

// genCrisisTx asks the chain to verify one of its registered invariants (x/crisis): the
// answer depends on wiring that exists in process memory only, not in the database.
func (g *G) genCrisisTx() *world.TxStep {
	routes := [][2]string{{"bank", "nonnegative-outstanding"}, {"bank", "total-supply"}, {"staking", "module-accounts"}, {"staking", "nonnegative-power"},
		{"distribution", "nonnegative-outstanding"}, {"distribution", "module-account"}, {"gov", "module-account"}, {"bank", "no-such-route"}, {"aol", "anything"}}
	r := pick(g, "route", routes)
	msg := crisistypes.NewMsgVerifyInvariant(g.W.Accts[g.acct("sender")].Addr, r[0], r[1])
	signers, how := g.signersFor([]sdk.Msg{msg}, 0, 97, false)
	return &world.TxStep{Msgs: []world.MsgJSON{world.EncodeMsg(msg)}, Signers: signers, Fee: g.fee("fee"), Note: "verify-invariant " + r[0] + "/" + r[1] + " signers=" + how}
}

// genBankSetup draws a bank genesis variation: transfers of some denominations switched off
// (per denomination or by default), and coins the burn address holds from the first block on,
// typically also in a denomination that can no longer be sent.
func (g *G) genBankSetup() *world.BankSetup {
	b := &world.BankSetup{DefaultSendEnabled: !g.chance("default-send-disabled", 15)}
	denoms := []string{simnet.FeeDenom, simnet.BondDenom, simnet.ThirdDenom, "v00", "v01", "v07", "v31"}
	n := g.intn("n-send-disabled", 4)
	seen := map[string]bool{}
	for i := 0; i < n; i++ {
		d := pick(g, "send-disabled", denoms)
		if !seen[d] {
			seen[d] = true
			b.SendDisabled = append(b.SendDisabled, d)
		}
	}
	if g.chance("burn-address-genesis-coins", 75) {
		coins := sdk.NewCoins()
		for _, d := range b.SendDisabled {
			if g.chance("holds-"+d, 70) {
				coins = coins.Add(sdk.NewInt64Coin(d, int64(1+g.intn("amt-"+d, 1000000))))
			}
		}
		for i := g.intn("n-other", 3); i > 0; i-- {
			coins = coins.Add(sdk.NewInt64Coin(pick(g, "other-denom", denoms), int64(1+g.intn("other-amt", 1000000))))
		}
		b.BurnAddressCoins = coins.String()
	}
	return b
}
