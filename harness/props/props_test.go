package props

import (
	"encoding/json"
	"fmt"
	"os"
	"testing"

	"verifharness/world"
)

func TestC01(t *testing.T) { runMachine(t, CfgC01) }
func TestC02(t *testing.T) { runMachine(t, CfgC02) }
func TestC13(t *testing.T) { runMachine(t, CfgC13) }

// TestReplay re-executes a stored replay file without any generator (plain regression check).
func TestReplay(t *testing.T) {
	p := os.Getenv("VERIF_REPLAY")
	if p == "" {
		t.Skip("VERIF_REPLAY not set")
	}
	bz, err := os.ReadFile(p)
	if err != nil {
		t.Fatal(err)
	}
	var doc struct {
		Property string          `json:"property"`
		Kind     string          `json:"kind"`
		Steps    []world.Step    `json:"steps"`
		AolGen   json.RawMessage `json:"aol_genesis"`
	}
	if err := json.Unmarshal(bz, &doc); err != nil {
		t.Fatal(err)
	}
	switch doc.Kind {
	case "history":
		cfg := Machines[doc.Property]
		if cfg == nil {
			t.Fatalf("no machine for %s", doc.Property)
		}
		if _, err := replayHistory(cfg, doc.Steps, doc.AolGen); err != nil {
			fmt.Printf("REPLAY-VIOLATION property=%s %v\n", doc.Property, err)
			t.Fatalf("violation reproduced: %v", err)
		}
	default:
		if !replayOther(t, doc.Property, doc.Kind, bz) {
			t.Fatalf("unknown replay kind %q", doc.Kind)
		}
	}
}

func TestC03(t *testing.T) { runMachine(t, CfgC03) }
func TestC04(t *testing.T) { runMachine(t, CfgC04) }
func TestC05(t *testing.T) { runMachine(t, CfgC05) }
func TestC11(t *testing.T) { runMachine(t, CfgC11) }
func TestC06(t *testing.T) { runMachine(t, CfgC06) }
func TestC12(t *testing.T) { runMachine(t, CfgC12) }
func TestC08(t *testing.T) { runMachine(t, CfgC08) }
func TestC15(t *testing.T) { runMachine(t, CfgC15) }

// TestRules prints the non-triviality rule of every machine (read by the driver).
func TestRules(t *testing.T) {
	out := map[string]string{}
	for k, c := range Machines {
		out[k] = c.Rule
	}
	bz, _ := json.Marshal(out)
	fmt.Printf("RULES %s\n", bz)
}

func TestC07(t *testing.T) { runMachine(t, CfgC07) }

func TestC09(t *testing.T) { runMachine(t, CfgC09) }
func TestC10(t *testing.T) { runMachine(t, CfgC10) }

func TestC16Pipeline(t *testing.T) { runMachine(t, CfgC16) }
