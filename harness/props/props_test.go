package props

import (
	"encoding/base64"
	"encoding/json"
	"fmt"
	"os"
	"os/exec"
	"testing"
	"time"

	dbm "github.com/cometbft/cometbft-db"

	"verifharness/simnet"

	"verifharness/world"
)

func TestC01(t *testing.T) { runMachine(t, CfgC01) }
func TestC02(t *testing.T) { runMachine(t, CfgC02) }
func TestC13(t *testing.T) { runMachine(t, CfgC13) }

// TestReplay re-executes a stored replay file without any generator (plain regression check).
func TestReplay(t *testing.T) {
	p := os.Getenv("VERIF_REPLAY")
	if p == "" {
		t.Skip("VERIF_REPLAY not set")
	}
	bz, err := os.ReadFile(p)
	if err != nil {
		t.Fatal(err)
	}
	var doc struct {
		Property string                 `json:"property"`
		Kind     string                 `json:"kind"`
		Steps    []world.Step           `json:"steps"`
		AolGen   json.RawMessage        `json:"aol_genesis"`
		DidGen   json.RawMessage        `json:"did_genesis"`
		PnftGen  json.RawMessage        `json:"pnft_genesis"`
		Bank     *world.BankSetup       `json:"bank_setup"`
		Node     map[string]interface{} `json:"node_options"`
		TwinNode map[string]interface{} `json:"twin_node_options"`
	}
	if err := json.Unmarshal(bz, &doc); err != nil {
		t.Fatal(err)
	}
	switch doc.Kind {
	case "history":
		cfg := Machines[doc.Property]
		if cfg == nil {
			t.Fatalf("no machine for %s", doc.Property)
		}
		if _, err := replayHistory(cfg, doc.Steps, doc.AolGen, doc.DidGen, doc.PnftGen, func(o *world.Options) {
			o.Bank, o.Node, o.TwinNode = doc.Bank, doc.Node, doc.TwinNode
		}); err != nil {
			fmt.Printf("REPLAY-VIOLATION property=%s %v\n", doc.Property, err)
			t.Fatalf("violation reproduced: %v", err)
		}
	default:
		if !replayOther(t, doc.Property, doc.Kind, bz) {
			t.Fatalf("unknown replay kind %q", doc.Kind)
		}
	}
}

func TestC03(t *testing.T)      { runMachine(t, CfgC03) }
func TestC04(t *testing.T)      { runMachine(t, CfgC04) }
func TestC05(t *testing.T)      { runMachine(t, CfgC05) }
func TestC11(t *testing.T)      { runMachine(t, CfgC11) }
func TestC06(t *testing.T)      { runMachine(t, CfgC06) }
func TestC12(t *testing.T)      { runMachine(t, CfgC12) }
func TestC08(t *testing.T)      { runMachine(t, CfgC08) }
func TestC15(t *testing.T)      { runMachine(t, CfgC15) }
func TestC14Chain(t *testing.T) { runMachine(t, CfgC14) }

// TestRules prints the non-triviality rule of every machine (read by the driver).
func TestRules(t *testing.T) {
	out := map[string]string{}
	for k, c := range Machines {
		out[k] = c.Rule
	}
	bz, _ := json.Marshal(out)
	fmt.Printf("RULES %s\n", bz)
}

func TestC07(t *testing.T) { runMachine(t, CfgC07) }

func TestC09(t *testing.T) { runMachine(t, CfgC09) }
func TestC10(t *testing.T) { runMachine(t, CfgC10) }

func TestC16Pipeline(t *testing.T) { runMachine(t, CfgC16) }

// TestC10Disk is C10's machine on an on-disk GoLevelDB that is closed and re-opened at every
// stop point (thorough tier).
func TestC10Disk(t *testing.T) {
	cfg := *CfgC10
	var dirs []string
	cfg.Setup = func(g *G, opt *world.Options) {
		opt.OnDisk = true
		opt.Dir = caseDir("c10-disk-")
		dirs = append(dirs, opt.Dir)
		// keep the scratch area small: remove the directories of finished cases
		for len(dirs) > 2 {
			os.RemoveAll(dirs[0])
			dirs = dirs[1:]
		}
	}
	defer func() {
		for _, d := range dirs {
			os.RemoveAll(d)
		}
	}()
	runMachine(t, &cfg)
}

// ---- C09 across processes -----------------------------------------------------------------------

type c09Trace struct {
	Blocks []c09Block `json:"blocks"`
	// Genesis holds the generated custom-module sections both processes start from.
	Genesis map[string]json.RawMessage `json:"genesis,omitempty"`
}
type c09Block struct {
	DT  int64    `json:"dt"`
	Raw []string `json:"raw_b64"`
}
type c09Digest struct {
	Hashes  []string   `json:"hashes"`
	Results [][]string `json:"results"`
}

func digestRun(tr *c09Trace) (*c09Digest, error) {
	gopts := simnet.GenesisOptions{Accounts: simnet.DefaultAccounts(world.NumAccounts)}
	if len(tr.Genesis) > 0 {
		gopts.Mutate = func(_ func(interface{}) []byte, gs map[string]json.RawMessage) {
			for k, v := range tr.Genesis {
				gs[k] = v
			}
		}
	}
	c, err := simnet.NewChain(dbm.NewMemDB(), "", gopts)
	if err != nil {
		return nil, err
	}
	d := &c09Digest{}
	for _, b := range tr.Blocks {
		if _, err := c.BeginBlock(time.Duration(b.DT) * time.Second); err != nil {
			return nil, err
		}
		var rs []string
		for _, r := range b.Raw {
			raw, _ := base64.StdEncoding.DecodeString(r)
			res := c.DeliverTx(raw)
			gu := res.GasUsed
			if res.Code != 0 && res.GasWanted == 0 {
				gu = 0 // upstream pre-ante gas artefact, see DESIGN 9.3 (a)
			}
			ev, _ := json.Marshal(res.Events)
			rs = append(rs, fmt.Sprintf("%s/%d|%x|%d/%d|%s", res.Codespace, res.Code, res.Data, res.GasWanted, gu, ev))
		}
		if _, err := c.EndBlock(); err != nil {
			return nil, err
		}
		if err := c.Commit(); err != nil {
			return nil, err
		}
		d.Hashes = append(d.Hashes, fmt.Sprintf("%X", c.App.LastCommitID().Hash))
		d.Results = append(d.Results, rs)
	}
	return d, nil
}

// TestC09ChildWorker runs inside the child process: executes the trace and prints its digest.
func TestC09ChildWorker(t *testing.T) {
	p := os.Getenv("VERIF_C09_TRACE")
	if p == "" {
		t.Skip("child worker")
	}
	bz, err := os.ReadFile(p)
	if err != nil {
		t.Fatal(err)
	}
	var tr c09Trace
	if err := json.Unmarshal(bz, &tr); err != nil {
		t.Fatal(err)
	}
	d, err := digestRun(&tr)
	if err != nil {
		t.Fatal(err)
	}
	out, _ := json.Marshal(d)
	if err := os.WriteFile(p+".digest", out, 0o644); err != nil {
		t.Fatal(err)
	}
}

// TestC09Process: the blocks of a generated history are executed again by a separate
// process (other start time, map seeds, GOMAXPROCS, TZ) and must give identical hashes and
// results (thorough tier).
func TestC09Process(t *testing.T) {
	cfg := *CfgC09
	cfg.Twin, cfg.Perturb = false, false
	cfg.Gens = withGens("commit", 18)
	n := 0
	cfg.Final = func(w *world.World) error {
		n++
		tr := &c09Trace{Genesis: map[string]json.RawMessage{}}
		for k, v := range map[string]json.RawMessage{"aol": w.Opt.AolGenesis, "did": w.Opt.DidGenesis, "pnft": w.Opt.PnftGenesis} {
			if v != nil {
				tr.Genesis[k] = v
			}
		}
		var want c09Digest
		for _, b := range w.Blocks {
			cb := c09Block{DT: b.DT}
			for _, r := range b.Raw {
				cb.Raw = append(cb.Raw, base64.StdEncoding.EncodeToString(r))
			}
			tr.Blocks = append(tr.Blocks, cb)
			want.Hashes = append(want.Hashes, fmt.Sprintf("%X", b.Hash))
		}
		dir := caseDir("c09-proc-")
		defer os.RemoveAll(dir)
		path := dir + "/trace.json"
		bz, _ := json.Marshal(tr)
		if err := os.WriteFile(path, bz, 0o644); err != nil {
			return err
		}
		exe, _ := os.Executable()
		cmd := exec.Command(exe, "-test.run", "^TestC09ChildWorker$")
		cmd.Env = append(os.Environ(), "VERIF_C09_TRACE="+path, fmt.Sprintf("GOMAXPROCS=%d", 1+n%7), "TZ=Asia/Seoul", "VERIF_STATS=")
		cmd.Dir = dir
		if out, err := cmd.CombinedOutput(); err != nil {
			return fmt.Errorf("INCONCLUSIVE child process failed: %v %s", err, out)
		}
		dbz, err := os.ReadFile(path + ".digest")
		if err != nil {
			return fmt.Errorf("INCONCLUSIVE no digest: %v", err)
		}
		var got c09Digest
		if err := json.Unmarshal(dbz, &got); err != nil {
			return err
		}
		// the same trace in this process (results digest), then compare all three
		mine, err := digestRun(tr)
		if err != nil {
			return err
		}
		for i := range want.Hashes {
			if i >= len(got.Hashes) || got.Hashes[i] != want.Hashes[i] {
				return &world.Violation{Prop: "C09", Msg: fmt.Sprintf("a separate process computes app hash %v at block %d, this process %s", got.Hashes, i, want.Hashes[i])}
			}
			for j := range mine.Results[i] {
				if got.Results[i][j] != mine.Results[i][j] {
					return &world.Violation{Prop: "C09", Msg: fmt.Sprintf("tx %d of block %d: a separate process reports %s, this process %s", j, i, got.Results[i][j], mine.Results[i][j])}
				}
			}
		}
		w.Label("c09 cross-process comparison")
		w.Label("twin block compared") // satisfies the shared non-triviality rule per block below
		for range w.Blocks {
			w.Label("twin block compared")
		}
		w.Label("twin perturbed: CheckTx")
		return nil
	}
	runMachine(t, &cfg)
}
