package props

import (
	"bytes"
	"encoding/json"
	"fmt"
	"os"
	"path/filepath"
	"sort"
	"strings"
	"testing"
	"time"

	dbm "github.com/cometbft/cometbft-db"
	"github.com/cometbft/cometbft/libs/log"
	"github.com/cosmos/cosmos-sdk/store/rootmulti"
	storetypes "github.com/cosmos/cosmos-sdk/store/types"
	sdk "github.com/cosmos/cosmos-sdk/types"
	upgradetypes "github.com/cosmos/cosmos-sdk/x/upgrade/types"
	"github.com/medibloc/panacea-core/v2/app"
	"pgregory.net/rapid"

	"verifharness/simnet"
	"verifharness/world"
)

var CfgC19 = &MachineCfg{
	Prop: "C19", Also: agreement,
	Gens: withGens("commit", 16, "crash", 2, "restart", 3),
	Bias: map[string]int{"right-signers": 94, "exec": 2, "right-proof": 85, "group": 14, "group-actor": 20},
	Rule: "a chain populated by a mixed history runs on the emulated previous release (newest upgrade descriptor absent), an upgrade plan for the newest descriptor is scheduled at a generated height, the previous release halts there and the full release is opened on the same database and home, with restarts injected before, at and after the upgrade height; oracle = upgrade block processed without panic, done-height and module version map recorded, aol/did/pnft stores and probe-set answers identical across the upgrade block, same app hashes as a run without restarts; plus the complete store-set fold of the descriptor list and a store-loader run on generated pre-upgrade databases; non-trivial = >=1 entity in each custom module at the upgrade height and >=1 restart at or next to it",
	Step: burnStep,
}

func caseDir(prefix string) string {
	base := os.Getenv("VERIF_WORK")
	if base == "" {
		base = os.TempDir()
	}
	d, err := os.MkdirTemp(base, prefix)
	if err != nil {
		panic(err)
	}
	return d
}

// upgradeScenario is the recorded, replayable part of a C19 case.
type upgradeScenario struct {
	Steps        []world.Step `json:"steps"`
	PlanDelay    int          `json:"plan_delay"`
	RestartOld   bool         `json:"restart_old"`   // restart the halted previous release once more
	RestartAt    string       `json:"restart_at"`    // "", "redeliver" (inside the upgrade block), "endblock"
	RestartAfter bool         `json:"restart_after"` // restart right after the upgrade block
	// Heritage: the version map also holds entries of modules that earlier releases retired
	// (every store an earlier descriptor deletes), as on a chain that came through those releases.
	Heritage bool `json:"heritage,omitempty"`
	TailSteps    []world.Step `json:"tail_steps"`
}

// previousReleaseVersions are the consensus versions of the custom modules in the release that
// precedes this one (all 1 at the pinned commit). The previous release is emulated by the same
// code, which records ITS versions at InitChain; where the tree under test runs a higher version
// than the previous release did, the stored version is put back so that the upgrade really runs
// the migrations a chain coming from the previous release would run.
var previousReleaseVersions = map[string]uint64{"aol": 1, "did": 1, "pnft": 1, "burn": 1}

func restorePreviousVersions(a *app.App, ctx sdk.Context) int {
	cur := a.ModuleManager.GetVersionMap()
	vm := a.UpgradeKeeper.GetModuleVersionMap(ctx)
	n := 0
	for _, m := range world.SortedKeys(previousReleaseVersions) {
		if cur[m] > previousReleaseVersions[m] && vm[m] != previousReleaseVersions[m] {
			vm[m] = previousReleaseVersions[m]
			n++
		}
	}
	if n > 0 {
		a.UpgradeKeeper.SetModuleVersionMap(ctx, vm)
	}
	return n
}

// leaveHeritage writes version-map entries for the modules earlier descriptors retired (their
// Deleted stores): x/upgrade never removes entries, so a chain that came through those releases
// still carries them.
func leaveHeritage(a *app.App, ctx sdk.Context) int {
	us := ctx.KVStore(a.GetKey(upgradetypes.StoreKey))
	n := 0
	for _, u := range app.Upgrades {
		for _, name := range u.StoreUpgrades.Deleted {
			var b [8]byte
			b[7] = 1
			us.Set(append([]byte{upgradetypes.VersionMapByte}, []byte(name)...), b[:])
			n++
		}
	}
	return n
}

// tailStops counts the stop points taken after the upgrade block.
func (sc *upgradeScenario) tailStops() int {
	n := 0
	for _, s := range sc.TailSteps {
		switch s.Kind {
		case "crash", "crash_redeliver", "crash_endblock", "restart":
			n++
		}
	}
	return n
}

// runUpgrade executes a scenario. withRestarts=false runs the same blocks without any stop
// (except the unavoidable binary switch) and returns the app hash per height.
func runUpgrade(cfg *MachineCfg, sc *upgradeScenario, gen func(w *world.World, tail bool) *world.Step, withRestarts bool) (w *world.World, hashes map[int64]string, err error) {
	home := caseDir("c19-home-")
	defer os.RemoveAll(home)
	name := app.Upgrades[len(app.Upgrades)-1].UpgradeName
	opt := world.Options{Prop: cfg.Prop, Also: alsoSet(cfg.Also), Open: OpenFindings(), Previous: true, Dir: home}
	w, err = world.New(opt)
	if err != nil {
		return nil, nil, err
	}
	hashes = map[int64]string{}
	record := func() { hashes[w.C.Height] = fmt.Sprintf("%X", w.C.App.LastCommitID().Hash) }
	apply := func(s world.Step) error { return w.Apply(s) }
	// phase 1: populate on the previous release
	if gen != nil {
		for i := 0; ; i++ {
			s := gen(w, false)
			if s == nil {
				break
			}
			sc.Steps = append(sc.Steps, *s)
			if err := apply(*s); err != nil {
				return w, hashes, err
			}
		}
	} else {
		for _, s := range sc.Steps {
			if err := apply(s); err != nil {
				return w, hashes, err
			}
		}
	}
	if err := w.Apply(world.Step{Kind: "commit", DT: 5}); err != nil {
		return w, hashes, err
	}
	// schedule the plan inside a block (as an executed governance proposal would)
	planHeight := w.C.Height + 2 + int64(sc.PlanDelay)
	if _, err := w.C.BeginBlock(5 * time.Second); err != nil {
		return w, hashes, vio19("BeginBlock: %v", err)
	}
	if err := w.C.App.UpgradeKeeper.ScheduleUpgrade(w.C.DeliverCtx(), upgradetypes.Plan{Name: name, Height: planHeight, Info: "verif"}); err != nil {
		return w, hashes, fmt.Errorf("schedule: %w", err)
	}
	if restorePreviousVersions(w.C.App, w.C.DeliverCtx()) > 0 {
		w.Label("c19 stored module versions put back to the previous release's")
	}
	if sc.Heritage {
		if leaveHeritage(w.C.App, w.C.DeliverCtx()) > 0 {
			w.Label("c19 version map with entries of retired modules")
		}
	}
	if _, err := w.C.EndBlock(); err != nil {
		return w, hashes, vio19("%v", err)
	}
	if err := w.C.Commit(); err != nil {
		return w, hashes, vio19("%v", err)
	}
	w.Blocks = append(w.Blocks, &world.BlockRec{DT: 5, Hook: fmt.Sprintf("schedule:%d", planHeight), Height: w.C.Height, Hash: w.C.App.LastCommitID().Hash})
	w.SyncCommitted()
	record()
	for w.C.Height < planHeight-1 {
		if err := w.Apply(world.Step{Kind: "commit", DT: 5}); err != nil {
			return w, hashes, err
		}
		record()
	}
	// state right before the upgrade block
	ctx := w.C.CommittedCtx()
	before := map[string][]simnet.KV{}
	for _, st := range []string{"aol", "did", "pnft"} {
		before[st] = w.C.DumpStore(ctx, st)
	}
	probes := w.ProbeSet()
	ansBefore := world.Answers(w.C, probes, 0)
	preHash := w.C.App.LastCommitID().Hash
	// the previous release must halt at the upgrade height and leave upgrade-info.json
	if _, err := w.C.BeginBlock(5 * time.Second); err == nil || !strings.Contains(err.Error(), "UPGRADE") {
		return w, hashes, vio19("the previous release did not halt at the upgrade height %d: %v", planHeight, err)
	}
	if withRestarts && sc.RestartOld {
		if err := w.C.Reopen(); err != nil {
			return w, hashes, vio19("restart of the halted previous release failed: %v", err)
		}
		if _, err := w.C.BeginBlock(5 * time.Second); err == nil || !strings.Contains(err.Error(), "UPGRADE") {
			return w, hashes, vio19("the restarted previous release did not halt again: %v", err)
		}
		w.Label("c19 restart before the upgrade")
	}
	if _, err := os.Stat(filepath.Join(home, "data", "upgrade-info.json")); err != nil {
		return w, hashes, vio19("upgrade-info.json was not written: %v", err)
	}
	// switch to the full release on the same database and home
	w.C.Previous = false
	if err := w.C.Reopen(); err != nil {
		return w, hashes, vio19("the release cannot open the pre-upgrade database: %v", err)
	}
	if w.C.App.LastBlockHeight() != planHeight-1 || !bytes.Equal(w.C.App.LastCommitID().Hash, preHash) {
		return w, hashes, vio19("the release opened at height %d hash %X, expected %d %X", w.C.App.LastBlockHeight(), w.C.App.LastCommitID().Hash, planHeight-1, preHash)
	}
	runUpgradeBlock := func() error {
		if _, err := w.C.BeginBlock(5 * time.Second); err != nil {
			return vio19("the upgrade block halted: %v", err)
		}
		return nil
	}
	if err := runUpgradeBlock(); err != nil {
		return w, hashes, err
	}
	if withRestarts && sc.RestartAt != "" {
		if sc.RestartAt == "endblock" {
			if _, err := w.C.EndBlock(); err != nil {
				return w, hashes, vio19("%v", err)
			}
		}
		if err := w.C.Reopen(); err != nil {
			return w, hashes, vio19("restart inside the upgrade block failed: %v", err)
		}
		if !bytes.Equal(w.C.App.LastCommitID().Hash, preHash) {
			return w, hashes, vio19("restart inside the upgrade block did not resume at the committed state")
		}
		if err := runUpgradeBlock(); err != nil {
			return w, hashes, err
		}
		w.Label("c19 restart at the upgrade height")
	}
	if _, err := w.C.EndBlock(); err != nil {
		return w, hashes, vio19("EndBlock of the upgrade block: %v", err)
	}
	if err := w.C.Commit(); err != nil {
		return w, hashes, vio19("Commit of the upgrade block: %v", err)
	}
	w.Blocks = append(w.Blocks, &world.BlockRec{DT: 5, Hook: "upgrade", Height: w.C.Height, Hash: w.C.App.LastCommitID().Hash})
	w.SyncCommitted()
	record()
	if withRestarts && sc.RestartAfter {
		if err := w.C.Reopen(); err != nil {
			return w, hashes, vio19("restart after the upgrade failed: %v", err)
		}
		w.Label("c19 restart after the upgrade")
	}
	// oracles
	ctx = w.C.CommittedCtx()
	if h := w.C.App.UpgradeKeeper.GetDoneHeight(ctx, name); h != planHeight {
		return w, hashes, vio19("upgrade %s recorded as done at height %d, expected %d", name, h, planHeight)
	}
	if _, found := w.C.App.UpgradeKeeper.GetUpgradePlan(ctx); found {
		return w, hashes, vio19("the upgrade plan is still pending after the upgrade block")
	}
	vm := w.C.App.UpgradeKeeper.GetModuleVersionMap(ctx)
	want := w.C.App.ModuleManager.GetVersionMap()
	if len(vm) < len(want) {
		return w, hashes, vio19("stored module version map has %d entries, the release has %d modules", len(vm), len(want))
	}
	for m, v := range want {
		if vm[m] != v {
			return w, hashes, vio19("module %s recorded at version %d, the release runs version %d", m, vm[m], v)
		}
	}
	for _, st := range []string{"aol", "did", "pnft"} {
		if !world.EqualKV(before[st], w.C.DumpStore(ctx, st)) {
			return w, hashes, vio19("the %s store changed across the upgrade block", st)
		}
	}
	ansAfter := world.Answers(w.C, probes, 0)
	for i := range probes {
		if !bytes.Equal(ansBefore[i], ansAfter[i]) {
			return w, hashes, vio19("query %q answers differently after the upgrade", probes[i].Name)
		}
	}
	w.Obs["c19 probes compared"] += len(probes)
	// the chain keeps working on the new release
	if gen != nil {
		for i := 0; ; i++ {
			s := gen(w, true)
			if s == nil {
				break
			}
			sc.TailSteps = append(sc.TailSteps, *s)
			if err := apply(*s); err != nil {
				return w, hashes, err
			}
		}
	} else {
		for _, s := range sc.TailSteps {
			if err := apply(s); err != nil {
				return w, hashes, err
			}
		}
	}
	if err := w.Apply(world.Step{Kind: "commit", DT: 5}); err != nil {
		return w, hashes, err
	}
	record()
	return w, hashes, nil
}

// replayBlocksNoRestart executes the recorded committed blocks on a fresh chain that starts
// on the previous release, halts at the scheduled height, continues on the full release and
// is otherwise never stopped; every application hash must equal the recorded one.
func replayBlocksNoRestart(blocks []*world.BlockRec, heritage bool) error {
	home := caseDir("c19-twin-")
	defer os.RemoveAll(home)
	name := app.Upgrades[len(app.Upgrades)-1].UpgradeName
	c, err := simnet.NewChain(dbm.NewMemDB(), home, simnet.GenesisOptions{Accounts: simnet.DefaultAccounts(world.NumAccounts), Previous: true})
	if err != nil {
		return err
	}
	for _, b := range blocks {
		if b.Hook == "upgrade" {
			if _, err := c.BeginBlock(time.Duration(b.DT) * time.Second); err == nil {
				return vio19("twin: the previous release did not halt")
			}
			c.Previous = false
			if err := c.Reopen(); err != nil {
				return vio19("twin: %v", err)
			}
		}
		if _, err := c.BeginBlock(time.Duration(b.DT) * time.Second); err != nil {
			return vio19("twin (never restarted) halted at height %d: %v", b.Height, err)
		}
		if strings.HasPrefix(b.Hook, "schedule:") {
			var h int64
			fmt.Sscanf(b.Hook, "schedule:%d", &h)
			if err := c.App.UpgradeKeeper.ScheduleUpgrade(c.DeliverCtx(), upgradetypes.Plan{Name: name, Height: h, Info: "verif"}); err != nil {
				return err
			}
			restorePreviousVersions(c.App, c.DeliverCtx())
			if heritage {
				leaveHeritage(c.App, c.DeliverCtx())
			}
		}
		for _, raw := range b.Raw {
			c.DeliverTx(raw)
		}
		if _, err := c.EndBlock(); err != nil {
			return vio19("twin: %v", err)
		}
		if err := c.Commit(); err != nil {
			return vio19("twin: %v", err)
		}
		if c.Height != b.Height || !bytes.Equal(c.App.LastCommitID().Hash, b.Hash) {
			return vio19("app hash at height %d differs between the run with restarts (%X) and a run without (%X at height %d)", b.Height, b.Hash, c.App.LastCommitID().Hash, c.Height)
		}
	}
	return nil
}

func vio19(f string, a ...interface{}) error {
	return &world.Violation{Prop: "C19", Msg: fmt.Sprintf(f, a...)}
}

func TestC19(t *testing.T) { upgradePlan(t, CfgC19, 8) }

// CfgC10PostUpgrade: C10's stop points on a chain whose history contains an applied software
// upgrade (previous release -> halt -> this release), weighted to the blocks after it.
var CfgC10PostUpgrade = &MachineCfg{
	Prop: "C10", Also: agreement,
	Gens: withGens("commit", 14, "crash", 6, "crash_redeliver", 7, "crash_endblock", 4, "restart", 6),
	Bias: map[string]int{"right-signers": 92, "exec": 3, "right-proof": 80},
	Rule: "",
}

// TestC10PostUpgrade runs the upgrade scenario for C10: every stop point of C10 (after Commit,
// inside a block, after EndBlock) is also taken in the blocks that follow an applied upgrade,
// and the committed blocks are replayed on instances that never stopped.
func TestC10PostUpgrade(t *testing.T) { upgradePlan(t, CfgC10PostUpgrade, 16) }

// CfgC05PostUpgrade: tombstones across the software upgrade that leads to this release (a node
// "restart" in which the binary changes): deactivations before the upgrade height, every kind
// of attempt on the tombstones after it.
var CfgC05PostUpgrade = &MachineCfg{
	Prop: "C05", Also: []string{"C03", "C04", "C11"},
	Gens: []interface{}{"did", 70, "commit", 16, "crash", 3, "restart", 4, "bank", 2, "aol", 3, "pnft", 2},
	Bias: map[string]int{"right-signers": 95, "exec": 2, "right-proof": 78, "did-deactivate": 28, "aim-tomb": 45, "did-replay": 8, "update-to-empty": 12},
}

func TestC05PostUpgrade(t *testing.T) { upgradePlan(t, CfgC05PostUpgrade, 12) }

func upgradePlan(t *testing.T, cfg *MachineCfg, tailSteps int) {
	rapid.Check(t, func(rt *rapid.T) {
		g := &G{T: rt, Bias: cfg.Bias}
		sc := &upgradeScenario{}
		sc.PlanDelay = g.intn("plan-delay", 3)
		sc.RestartOld = g.chance("restart-old", 35)
		sc.RestartAt = pick(g, "restart-at", []string{"", "", "redeliver", "endblock"})
		sc.RestartAfter = g.chance("restart-after", 40)
		sc.Heritage = g.chance("heritage", 40)
		n1 := 8 + g.intn("pre-steps", 24)
		n2 := 2 + g.intn("tail-steps", tailSteps)
		k := 0
		gen := func(w *world.World, tail bool) *world.Step {
			g.W = w
			limit := n1
			if tail {
				limit = n1 + n2
			}
			if k >= limit {
				return nil
			}
			k++
			kind := g.weighted("kind", cfg.Gens...)
			return g.genStep(cfg, kind)
		}
		fail := func(w *world.World, err error) {
			if p := os.Getenv("VERIF_REPLAY_OUT"); p != "" {
				bz, _ := json.MarshalIndent(map[string]interface{}{"property": cfg.Prop, "kind": "upgrade", "scenario": sc, "violation": err.Error()}, "", " ")
				_ = os.WriteFile(p, bz, 0o644)
			}
			rt.Fatalf("ORACLE %s: %v", cfg.Prop, err)
		}
		w, h1, err := runUpgrade(cfg, sc, gen, true)
		if err != nil {
			fail(w, err)
		}
		// the same committed blocks on instances that are never restarted (apart from the
		// unavoidable switch of binaries at the upgrade height)
		if err := replayBlocksNoRestart(w.Blocks, sc.Heritage); err != nil {
			fail(w, err)
		}
		_ = h1
		nt := lab(w, "aol topic created") > 0 && lab(w, "did created") > 0 && lab(w, "pnft denom created") > 0 &&
			lab(w, "c19 restart before the upgrade")+lab(w, "c19 restart at the upgrade height")+lab(w, "c19 restart after the upgrade") > 0
		if cfg.Prop == "C10" {
			nt = lab(w, "c19 restart after the upgrade")+lab(w, "c19 restart at the upgrade height") > 0 || sc.tailStops() > 0
		}
		if cfg.Prop == "C05" {
			nt = lab(w, "did deactivated") > 0 && lab(w, "did attempt on tombstone") > 0
		}
		cfgc := *cfg
		cfgc.NonTrivial = func(*world.World) bool { return nt }
		recordCase(&cfgc, w)
	})
}

func init() {
	Machines["C19"] = CfgC19
	otherReplays["upgrade"] = func(t *testing.T, raw []byte) {
		var doc struct {
			Property string          `json:"property"`
			Scenario upgradeScenario `json:"scenario"`
		}
		if err := json.Unmarshal(raw, &doc); err != nil {
			t.Fatal(err)
		}
		cfg := CfgC19
		if doc.Property == "C10" {
			cfg = CfgC10PostUpgrade
		}
		if doc.Property == "C05" {
			cfg = CfgC05PostUpgrade
		}
		if _, _, err := runUpgrade(cfg, &doc.Scenario, nil, true); err != nil {
			fmt.Printf("REPLAY-VIOLATION property=%s %v\n", cfg.Prop, err)
			t.Fatalf("violation reproduced: %v", err)
		}
	}
}

// ---- configuration: descriptors versus mounted stores -----------------------------------------

// baselineStores are the stores that predate the first descriptor: the stores of the modules
// the first descriptor itself lists as already present, plus the store it deletes.
var baselineStores = []string{"acc", "bank", "capability", "distribution", "evidence", "gov", "mint", "params", "slashing", "staking",
	"upgrade", "ibc", "transfer", "aol", "did", "burn", "wasm", "token"}

func foldStores(upto int) (map[string]bool, error) {
	set := map[string]bool{}
	for _, s := range baselineStores {
		set[s] = true
	}
	for i := 0; i < upto; i++ {
		u := app.Upgrades[i].StoreUpgrades
		for _, r := range u.Renamed {
			if !set[r.OldKey] {
				return nil, fmt.Errorf("descriptor %s renames store %q which does not exist at that point", app.Upgrades[i].UpgradeName, r.OldKey)
			}
			delete(set, r.OldKey)
			set[r.NewKey] = true
		}
		for _, d := range u.Deleted {
			if !set[d] {
				return nil, fmt.Errorf("descriptor %s deletes store %q which does not exist at that point", app.Upgrades[i].UpgradeName, d)
			}
			delete(set, d)
		}
		for _, a := range u.Added {
			if set[a] {
				return nil, fmt.Errorf("descriptor %s adds store %q which already exists", app.Upgrades[i].UpgradeName, a)
			}
			set[a] = true
		}
	}
	return set, nil
}

func setKeys(m map[string]bool) []string {
	var out []string
	for k := range m {
		out = append(out, k)
	}
	sort.Strings(out)
	return out
}

// TestC19Config enumerates the single configuration completely: the descriptor fold must
// equal the mounted store set, and for every descriptor whose post-state is the mounted set
// the real store loader must open a database holding exactly the pre-descriptor stores.
func TestC19Config(t *testing.T) {
	a, err := simnet.NewApp(dbm.NewMemDB(), "")
	if err != nil {
		t.Fatal(err)
	}
	mounted := map[string]bool{}
	for name := range a.GetKVStoreKey() {
		mounted[name] = true
	}
	final, err := foldStores(len(app.Upgrades))
	if err != nil {
		t.Fatalf("ORACLE C19: %v", err)
	}
	if strings.Join(setKeys(final), ",") != strings.Join(setKeys(mounted), ",") {
		t.Fatalf("ORACLE C19: folding the upgrade descriptors over the pre-upgrade store set gives %v, the release mounts %v", setKeys(final), setKeys(mounted))
	}
	seen := map[string]bool{}
	for _, u := range app.Upgrades {
		if seen[u.UpgradeName] {
			t.Fatalf("ORACLE C19: upgrade name %s appears twice", u.UpgradeName)
		}
		seen[u.UpgradeName] = true
	}
	loaderRuns := 0
	for i := range app.Upgrades {
		post, _ := foldStores(i + 1)
		if strings.Join(setKeys(post), ",") != strings.Join(setKeys(mounted), ",") {
			continue
		}
		pre, _ := foldStores(i)
		for variant := 0; variant < 3; variant++ {
			home := caseDir("c19-cfg-")
			db := dbm.NewMemDB()
			ms := rootmulti.NewStore(db, log.NewNopLogger())
			keys := map[string]*storetypes.KVStoreKey{}
			for _, n := range setKeys(pre) {
				keys[n] = storetypes.NewKVStoreKey(n)
				ms.MountStoreWithDB(keys[n], storetypes.StoreTypeIAVL, nil)
			}
			if err := ms.LoadLatestVersion(); err != nil {
				t.Fatal(err)
			}
			versions := int64(1 + variant*2)
			for v := int64(0); v < versions; v++ {
				for j, n := range setKeys(pre) {
					if variant == 2 && j%2 == 0 {
						continue // some stores stay empty
					}
					ms.GetKVStore(keys[n]).Set([]byte(fmt.Sprintf("k%d", v)), []byte(n))
				}
				ms.Commit()
			}
			info := fmt.Sprintf(`{"name":%q,"height":%d}`, app.Upgrades[i].UpgradeName, versions+1)
			_ = os.MkdirAll(filepath.Join(home, "data"), 0o755)
			if err := os.WriteFile(filepath.Join(home, "data", "upgrade-info.json"), []byte(info), 0o644); err != nil {
				t.Fatal(err)
			}
			if _, err := simnet.NewApp(db, home); err != nil {
				os.RemoveAll(home)
				t.Fatalf("ORACLE C19: a node upgrading to %s meets an undeclared store: %v", app.Upgrades[i].UpgradeName, err)
			}
			os.RemoveAll(home)
			loaderRuns++
		}
	}
	if loaderRuns == 0 {
		t.Fatalf("ORACLE C19: no descriptor leads to the mounted store set")
	}
	writeSummary("C19", loaderRuns+1, loaderRuns+1, []string{"descriptor fold", fmt.Sprintf("%d store-loader runs", loaderRuns)}, map[string]int{"c19 store-loader runs": loaderRuns},
		[]interface{}{map[string]interface{}{"mounted": setKeys(mounted), "fold": setKeys(final)}}, map[string]interface{}{"config_exhaustive": true})
}

// ---- two upgrades in sequence ---------------------------------------------------------------------

// TestC19Sequence : a node that goes through the LAST TWO releases in order with this binary.
// The state is first put into the shape it has before the older of the two upgrades (the
// modules that descriptor introduces have no version-map entry and empty stores), custom-module
// data is created by transactions, the older upgrade runs, more traffic (now also for the
// introduced modules), then the newest upgrade runs after a stop at its height. After each
// upgrade block: processed without halting, done-height recorded, stored version map equal to
// the module manager's, aol/did/pnft stores unchanged across the block.
func TestC19Sequence(t *testing.T) {
	if len(app.Upgrades) < 2 {
		t.Skip("fewer than two descriptors")
	}
	older, newest := app.Upgrades[len(app.Upgrades)-2], app.Upgrades[len(app.Upgrades)-1]
	cfg1 := &MachineCfg{Prop: "C19", Gens: []interface{}{"aol", 40, "did", 40, "bank", 5, "commit", 15}, Bias: map[string]int{"right-signers": 95, "right-proof": 85}}
	cfg2 := &MachineCfg{Prop: "C19", Gens: withGens("commit", 16), Bias: map[string]int{"right-signers": 95, "right-proof": 85}}
	st := newPureStats("C19")
	defer st.flush()
	rapid.Check(t, func(rt *rapid.T) {
		g := &G{T: rt, Bias: cfg1.Bias, W0Accts: simnet.DefaultAccounts(world.NumAccounts)}
		home := caseDir("c19-seq-")
		defer os.RemoveAll(home)
		w, err := world.New(world.Options{Prop: "C19", Also: alsoSet([]string{"C01", "C13", "C03", "C04", "C05"}), Open: OpenFindings(), Dir: home})
		if err != nil {
			rt.Fatalf("world: %v", err)
		}
		g.W = w
		fail := func(f string, a ...interface{}) {
			msg := fmt.Sprintf(f, a...)
			if p := os.Getenv("VERIF_REPLAY_OUT"); p != "" {
				_ = w.WriteReplay(p, map[string]interface{}{"property": "C19", "kind": "rerun", "violation": msg})
			}
			rt.Fatalf("ORACLE C19: %s", msg)
		}
		steps := func(cfg *MachineCfg, n int) {
			g.Bias = cfg.Bias
			for i := 0; i < n; i++ {
				if err := w.Apply(*g.genStep(cfg, g.weighted("kind", cfg.Gens...))); err != nil {
					fail("%v", err)
				}
			}
			if err := w.Apply(world.Step{Kind: "commit", DT: 5}); err != nil {
				fail("%v", err)
			}
		}
		custom := func() map[string][]simnet.KV {
			out := map[string][]simnet.KV{}
			for _, s := range []string{"aol", "did", "pnft"} {
				out[s] = w.C.DumpStore(w.C.CommittedCtx(), s)
			}
			return out
		}
		// runs one upgrade: the plan is scheduled in block H-1 for H (optionally with the halt file
		// and a restart at H), block H is executed, oracles
		upgrade := func(u string, prepare func(ctx sdk.Context), stopAtHeight bool) {
			if _, err := w.C.BeginBlock(5 * time.Second); err != nil {
				fail("BeginBlock: %v", err)
			}
			ctx := w.C.DeliverCtx()
			if prepare != nil {
				prepare(ctx)
			}
			plan := upgradetypes.Plan{Name: u, Height: w.C.Height + 2}
			if w.C.InBlock {
				plan.Height = w.C.Hdr.Height + 1
			}
			if err := w.C.App.UpgradeKeeper.ScheduleUpgrade(ctx, plan); err != nil {
				fail("schedule %s: %v", u, err)
			}
			if _, err := w.C.EndBlock(); err != nil {
				fail("%v", err)
			}
			if err := w.C.Commit(); err != nil {
				fail("%v", err)
			}
			before := custom()
			if stopAtHeight {
				if err := w.C.App.UpgradeKeeper.DumpUpgradeInfoToDisk(plan.Height, plan); err != nil {
					fail("halt file: %v", err)
				}
				if err := w.C.Reopen(); err != nil {
					fail("restart at the height of %s failed: %v", u, err)
				}
			}
			if _, err := w.C.BeginBlock(5 * time.Second); err != nil {
				fail("the %s upgrade block halted: %v", u, err)
			}
			if _, err := w.C.EndBlock(); err != nil {
				fail("EndBlock of the %s upgrade block: %v", u, err)
			}
			if err := w.C.Commit(); err != nil {
				fail("Commit of the %s upgrade block: %v", u, err)
			}
			w.SyncCommitted()
			cctx := w.C.CommittedCtx()
			if h := w.C.App.UpgradeKeeper.GetDoneHeight(cctx, u); h != plan.Height {
				fail("upgrade %s recorded as done at height %d, expected %d", u, h, plan.Height)
			}
			vm, want := w.C.App.UpgradeKeeper.GetModuleVersionMap(cctx), w.C.App.ModuleManager.GetVersionMap()
			for _, m := range world.SortedKeys(want) {
				if vm[m] != want[m] {
					fail("after the %s upgrade block module %s is recorded at version %d, the release runs version %d", u, m, vm[m], want[m])
				}
			}
			after := custom()
			for _, s := range []string{"aol", "did", "pnft"} {
				if !world.EqualKV(before[s], after[s]) {
					fail("the %s store changed across the %s upgrade block", s, u)
				}
			}
		}
		steps(cfg1, 6+g.intn("pre-steps", 14))
		upgrade(older.UpgradeName, func(ctx sdk.Context) {
			// the shape before the older upgrade: what its descriptor introduces is not there yet
			us := ctx.KVStore(w.C.App.GetKey(upgradetypes.StoreKey))
			for _, name := range older.StoreUpgrades.Added {
				us.Delete(append([]byte{upgradetypes.VersionMapByte}, []byte(strings.ToLower(name))...))
				if k := w.C.App.GetKey(name); k != nil && strings.ToLower(name) != "consensus" {
					store := ctx.KVStore(k)
					var keys [][]byte
					it := store.Iterator(nil, nil)
					for ; it.Valid(); it.Next() {
						keys = append(keys, append([]byte{}, it.Key()...))
					}
					it.Close()
					for _, kk := range keys {
						store.Delete(kk)
					}
				}
			}
		}, false)
		if g.chance("restart-between", 50) {
			if err := w.C.Reopen(); err != nil {
				fail("restart between the upgrades failed: %v", err)
			}
		}
		steps(cfg2, 4+g.intn("mid-steps", 10))
		upgrade(newest.UpgradeName, nil, g.chance("stop-at-height", 70))
		steps(cfg2, 2+g.intn("tail-steps", 6))
		st.add(lab(w, "aol topic created")+lab(w, "did created") > 0, hash8([]byte(w.ShapeString())), nil, "two upgrades in sequence")
	})
}
