package props

import (
	"crypto/sha256"
	"encoding/hex"
	"encoding/json"
	"fmt"
	"os"
	"strings"
	"sync"
	"testing"

	"pgregory.net/rapid"

	"verifharness/simnet"
	"verifharness/world"
)

// MachineCfg describes one property's state machine.
type MachineCfg struct {
	Prop string
	Also []string
	// Gens are the weights of the step kinds.
	Gens []interface{}
	Bias map[string]int
	// NonTrivial is the property's stated non-triviality rule, evaluated at the end of a case.
	NonTrivial func(w *world.World) bool
	Rule       string
	// Final runs extra end-of-case checks.
	Final func(w *world.World) error
	// Setup may customise the world options (genesis sub-modes).
	Setup func(g *G, opt *world.Options)
	// Twin / Perturb configure the second instance (see world.Options).
	Twin, Perturb bool
	// Step lets a property add its own step kinds; it returns nil if kind is unknown.
	Step func(g *G, kind string) *world.Step
}

// ---- known findings ---------------------------------------------------------------------------

type Finding struct {
	Property string `json:"property"`
	Key      string `json:"key"`
	Status   string `json:"status"` // open | fixed
	Commit   string `json:"commit,omitempty"`
	What     string `json:"what"`
}

var (
	findingsOnce sync.Once
	findings     []Finding
)

// Findings loads the committed known-findings file (never written at run time).
func Findings() []Finding {
	findingsOnce.Do(func() {
		p := os.Getenv("VERIF_KNOWN")
		if p == "" {
			p = "/verif/known_findings.json"
		}
		bz, err := os.ReadFile(p)
		if err != nil {
			return
		}
		var doc struct {
			Findings []Finding `json:"findings"`
		}
		if err := json.Unmarshal(bz, &doc); err != nil {
			panic("known_findings.json: " + err.Error())
		}
		findings = doc.Findings
	})
	return findings
}

// OpenFindings returns the keys of all open findings (applied by every generator that could
// produce their trigger).
func OpenFindings() map[string]bool {
	o := map[string]bool{}
	for _, f := range Findings() {
		if f.Status == "open" {
			o[f.Key] = true
		}
	}
	return o
}

// ---- stats ------------------------------------------------------------------------------------

type caseStat struct {
	Prop       string         `json:"prop"`
	Shape      string         `json:"shape"`
	NonTrivial bool           `json:"nt"`
	Labels     map[string]int `json:"labels,omitempty"`
	Obs        map[string]int `json:"obs,omitempty"`
	Excluded   map[string]int `json:"excluded,omitempty"`
	Sample     interface{}    `json:"sample,omitempty"`
	Steps      int            `json:"steps"`
}

var (
	statMu    sync.Mutex
	statFile  *os.File
	statCount int
)

func writeStat(cs caseStat) {
	statMu.Lock()
	defer statMu.Unlock()
	p := os.Getenv("VERIF_STATS")
	if p == "" {
		return
	}
	if statFile == nil {
		f, err := os.OpenFile(p, os.O_CREATE|os.O_WRONLY|os.O_APPEND, 0o644)
		if err != nil {
			panic(err)
		}
		statFile = f
	}
	statCount++
	if statCount > 6 {
		cs.Sample = nil
	}
	bz, _ := json.Marshal(cs)
	statFile.Write(append(bz, '\n'))
}

func shapeHash(s string) string {
	h := sha256.Sum256([]byte(s))
	return hex.EncodeToString(h[:8])
}

// recordCase writes the per-case statistics line.
func recordCase(cfg *MachineCfg, w *world.World) {
	nt := cfg.NonTrivial == nil || cfg.NonTrivial(w)
	var sample interface{}
	if nt {
		sh := w.Shape
		if len(sh) > 40 {
			sh = append(append([]string{}, sh[:40]...), fmt.Sprintf("... (%d more)", len(w.Shape)-40))
		}
		sample = sh
	}
	writeStat(caseStat{Prop: cfg.Prop, Shape: shapeHash(w.ShapeString()), NonTrivial: nt, Labels: w.Labels, Obs: w.Obs, Excluded: w.Excluded,
		Sample: sample, Steps: len(w.History)})
}

// ---- failure reporting ----------------------------------------------------------------------------

// reportFailure writes the replay file (history as pure data) and fails the case.
func reportFailure(rt *rapid.T, cfg *MachineCfg, w *world.World, mode string, err error) {
	if p := os.Getenv("VERIF_REPLAY_OUT"); p != "" {
		_ = w.WriteReplay(p, map[string]interface{}{"property": cfg.Prop, "mode": mode, "violation": err.Error()})
	}
	rt.Fatalf("ORACLE %s: %v\nshape: %s", cfg.Prop, err, strings.Join(w.Shape, " "))
}

// ---- the generic machine ---------------------------------------------------------------------------

func alsoSet(xs []string) map[string]bool {
	m := map[string]bool{}
	for _, x := range xs {
		m[x] = true
	}
	return m
}

func (g *G) genStep(cfg *MachineCfg, kind string) *world.Step {
	if b := g.bias("group", 0); b > 0 && g.W.Group.Policy == "" && g.chance("group-setup", b) {
		return &world.Step{Kind: "tx", Tx: g.genGroupSetup()}
	}
	if cfg.Step != nil {
		if s := cfg.Step(g, kind); s != nil {
			return s
		}
	}
	switch kind {
	case "aol":
		return &world.Step{Kind: "tx", Tx: g.genAolTx()}
	case "did":
		return &world.Step{Kind: "tx", Tx: g.genDidTx()}
	case "pnft":
		return &world.Step{Kind: "tx", Tx: g.genPnftTx()}
	case "read_did":
		return g.genDidReads()
	case "reads":
		return g.genProbeReads()
	case "sim_aol":
		return g.genPerturb(g.genAolMsg, true)
	case "sim_did":
		return g.genPerturb(g.genDidMsg, true)
	case "sim_pnft":
		return g.genPerturb(g.genPnftMsg, false)
	case "bank":
		return &world.Step{Kind: "tx", Tx: g.genBankSend()}
	case "burn":
		return &world.Step{Kind: "tx", Tx: g.genBurnTx()}
	case "gov":
		return &world.Step{Kind: "tx", Tx: g.genGovTx()}
	case "crisis":
		return &world.Step{Kind: "tx", Tx: g.genCrisisTx()}
	case "authz":
		return &world.Step{Kind: "tx", Tx: g.genAuthz(g.authzURLs())}
	case "commit":
		return &world.Step{Kind: "commit", DT: int64(1 + g.intn("dt", 100000))}
	case "crash":
		return &world.Step{Kind: "crash"}
	case "crash_redeliver":
		return &world.Step{Kind: "crash_redeliver"}
	case "crash_endblock":
		return &world.Step{Kind: "crash_endblock"}
	case "restart":
		return &world.Step{Kind: "restart"}
	case "export":
		return &world.Step{Kind: "export_import", ZeroHeight: g.chance("zero-height", 25)}
	}
	panic("unknown step kind " + kind)
}

func (g *G) authzURLs() []string {
	switch g.W.Opt.Prop {
	case "C06", "C12":
		return pnftURLs
	case "C02", "C01", "C13":
		return aolURLs
	}
	return append(append([]string{}, aolURLs...), pnftURLs...)
}

// newWorld builds the world of one case.
func newWorld(g *G, cfg *MachineCfg) (*world.World, error) {
	opt := world.Options{Prop: cfg.Prop, Also: alsoSet(cfg.Also), Open: OpenFindings(), Twin: cfg.Twin, Perturb: cfg.Perturb}
	if cfg.Setup != nil {
		cfg.Setup(g, &opt)
	}
	return world.New(opt)
}

// runMachine is the rapid property shared by all history-quantified checks.
func runMachine(t *testing.T, cfg *MachineCfg) {
	rapid.Check(t, func(rt *rapid.T) {
		g := &G{T: rt, Bias: cfg.Bias, W0Accts: simnet.DefaultAccounts(world.NumAccounts)}
		w, err := newWorld(g, cfg)
		if err != nil {
			rt.Fatalf("world: %v", err)
		}
		g.W = w
		rt.Repeat(map[string]func(*rapid.T){
			"step": func(rt *rapid.T) {
				g.T = rt
				kind := g.weighted("kind", cfg.Gens...)
				s := g.genStep(cfg, kind)
				if err := w.Apply(*s); err != nil {
					reportFailure(rt, cfg, w, "", err)
				}
			},
		})
		g.T = rt
		// close the history with a commit so that the committed-state oracles see everything
		if err := w.Apply(world.Step{Kind: "commit", DT: 7}); err != nil {
			reportFailure(rt, cfg, w, "", err)
		}
		if cfg.Final != nil {
			if err := cfg.Final(w); err != nil {
				reportFailure(rt, cfg, w, "", err)
			}
		}
		recordCase(cfg, w)
	})
}

// replayHistory re-executes a stored history without any generator.
func replayHistory(cfg *MachineCfg, steps []world.Step, aolGenesis, didGenesis, pnftGenesis json.RawMessage, more ...func(*world.Options)) (*world.World, error) {
	opt := world.Options{Prop: cfg.Prop, Also: alsoSet(cfg.Also), Open: OpenFindings(), Twin: cfg.Twin, Perturb: cfg.Perturb, AolGenesis: aolGenesis, DidGenesis: didGenesis, PnftGenesis: pnftGenesis}
	for _, f := range more {
		f(&opt)
	}
	w, err := world.New(opt)
	if err != nil {
		return nil, err
	}
	for _, s := range steps {
		if err := w.Apply(s); err != nil {
			return w, err
		}
	}
	if cfg.Final != nil {
		if err := cfg.Final(w); err != nil {
			return w, err
		}
	}
	return w, nil
}

// writeSummary records the coverage of a non-machine check (one line per test process).
func writeSummary(prop string, evals, nt int, distinctNT []string, labels map[string]int, samples []interface{}, extra map[string]interface{}) {
	statMu.Lock()
	defer statMu.Unlock()
	p := os.Getenv("VERIF_STATS")
	if p == "" {
		return
	}
	f, err := os.OpenFile(p, os.O_CREATE|os.O_WRONLY|os.O_APPEND, 0o644)
	if err != nil {
		panic(err)
	}
	defer f.Close()
	doc := map[string]interface{}{"summary": true, "prop": prop, "evals": evals, "nt": nt, "labels": labels, "samples": samples, "extra": extra}
	if len(distinctNT) <= 200000 {
		doc["distinct_nt"] = distinctNT
	} else {
		doc["distinct_nt_count"] = len(distinctNT)
	}
	bz, _ := json.Marshal(doc)
	f.Write(append(bz, '\n'))
}
