package props

import (
	"crypto/sha256"
	"encoding/base64"
	"encoding/hex"
	"encoding/json"
	"fmt"
	"os"
	"path/filepath"
	"strings"
	"testing"

	sdk "github.com/cosmos/cosmos-sdk/types"
	"github.com/cosmos/cosmos-sdk/types/query"
	"github.com/gogo/protobuf/proto"
	"github.com/medibloc/panacea-core/v2/app"
	aoltypes "github.com/medibloc/panacea-core/v2/x/aol/types"
	didcrypto "github.com/medibloc/panacea-core/v2/x/did/client/crypto"
	didtypes "github.com/medibloc/panacea-core/v2/x/did/types"
	pnfttypes "github.com/medibloc/panacea-core/v2/x/pnft/types"
	"golang.org/x/crypto/pbkdf2"
	"golang.org/x/crypto/sha3"
	"pgregory.net/rapid"

	"verifharness/simnet"
	"verifharness/world"
)

// ---- direct calls: ValidateBasic and, after success, GetSigners ------------------------------

func callNoPanic(f func()) (msg string) {
	defer func() {
		if r := recover(); r != nil {
			msg = fmt.Sprintf("%v", r)
		}
	}()
	f()
	return ""
}

// knownPanic maps a panicking direct call to an open finding key (or "").
func knownDirectPanic(m sdk.Msg) string {
	open := OpenFindings()
	switch x := m.(type) {
	case *didtypes.MsgCreateDIDRequest:
		if x.Document == nil && open["C17-nil-document"] {
			return "C17-nil-document"
		}
	case *didtypes.MsgUpdateDIDRequest:
		if x.Document == nil && open["C17-nil-document"] {
			return "C17-nil-document"
		}
	}
	return ""
}

func checkTotalMsg(m sdk.Msg, st *pureStats) string {
	m2, err := wireRoundTrip(m)
	if err != nil {
		return ""
	}
	var verr error
	if p := callNoPanic(func() { verr = m2.ValidateBasic() }); p != "" {
		if k := knownDirectPanic(m2); k != "" {
			st.label("excluded: "+k, 1)
			return ""
		}
		return fmt.Sprintf("ValidateBasic of %T panicked: %s", m2, p)
	}
	if verr != nil {
		st.label("validation rejected", 1)
		return ""
	}
	st.label("validation passed -> signer extraction", 1)
	if p := callNoPanic(func() { _ = m2.GetSigners() }); p != "" {
		return fmt.Sprintf("GetSigners of %T panicked after successful validation: %s", m2, p)
	}
	if lm, ok := m2.(interface{ GetSignBytes() []byte }); ok {
		if p := callNoPanic(func() { _ = lm.GetSignBytes() }); p != "" {
			return fmt.Sprintf("GetSignBytes of %T panicked after successful validation: %s", m2, p)
		}
	}
	return ""
}

var hostileStrings = []string{"", "a", strings.Repeat("x", 255), strings.Repeat("x", 256), strings.Repeat("y", 70000), "\xff\xfe", "a\x00b", "\x00", " ", "\n",
	"did:panacea:", "#", "panacea1", "%s%s%n", "../../etc/passwd", "🙂",
	strings.Repeat("é", 127), strings.Repeat("é", 128), strings.Repeat("한", 85), strings.Repeat("한", 100), strings.Repeat("🙂", 64), strings.Repeat("é", 255), strings.Repeat("\xff", 256)}

// hostileMutate replaces one string field of m (by protobuf JSON name) with a hostile value.
func hostileMutate(t *rapid.T, m sdk.Msg) sdk.Msg {
	out := proto.Clone(m).(sdk.Msg)
	h := rapid.SampledFrom(hostileStrings).Draw(t, "hostile")
	set := func(p *string) { *p = h }
	switch x := out.(type) {
	case *aoltypes.MsgCreateTopicRequest:
		set(rapid.SampledFrom([]*string{&x.TopicName, &x.Description, &x.OwnerAddress}).Draw(t, "f"))
	case *aoltypes.MsgAddWriterRequest:
		set(rapid.SampledFrom([]*string{&x.TopicName, &x.Moniker, &x.Description, &x.WriterAddress, &x.OwnerAddress}).Draw(t, "f"))
	case *aoltypes.MsgDeleteWriterRequest:
		set(rapid.SampledFrom([]*string{&x.TopicName, &x.WriterAddress, &x.OwnerAddress}).Draw(t, "f"))
	case *aoltypes.MsgAddRecordRequest:
		if rapid.Bool().Draw(t, "bytes") {
			x.Key, x.Value = []byte(h), []byte(h)
		} else {
			set(rapid.SampledFrom([]*string{&x.TopicName, &x.WriterAddress, &x.OwnerAddress, &x.FeePayerAddress}).Draw(t, "f"))
		}
	case *didtypes.MsgCreateDIDRequest:
		fs := []*string{&x.Did, &x.VerificationMethodId, &x.FromAddress}
		if x.Document != nil {
			fs = append(fs, &x.Document.Id)
			for _, vm := range x.Document.VerificationMethods {
				fs = append(fs, &vm.Id, &vm.Type, &vm.PublicKeyBase58, &vm.Controller)
			}
		}
		set(rapid.SampledFrom(fs).Draw(t, "f"))
	case *didtypes.MsgUpdateDIDRequest:
		fs := []*string{&x.Did, &x.VerificationMethodId, &x.FromAddress}
		if x.Document != nil {
			fs = append(fs, &x.Document.Id)
			for _, s := range x.Document.Services {
				fs = append(fs, &s.Id, &s.Type, &s.ServiceEndpoint)
			}
		}
		set(rapid.SampledFrom(fs).Draw(t, "f"))
	case *didtypes.MsgDeactivateDIDRequest:
		set(rapid.SampledFrom([]*string{&x.Did, &x.VerificationMethodId, &x.FromAddress}).Draw(t, "f"))
	case *pnfttypes.MsgCreateDenomRequest:
		set(rapid.SampledFrom([]*string{&x.Id, &x.Name, &x.Symbol, &x.Description, &x.Uri, &x.UriHash, &x.Data, &x.Creator}).Draw(t, "f"))
	case *pnfttypes.MsgUpdateDenomRequest:
		set(rapid.SampledFrom([]*string{&x.Id, &x.Name, &x.Symbol, &x.Updater}).Draw(t, "f"))
	case *pnfttypes.MsgDeleteDenomRequest:
		set(rapid.SampledFrom([]*string{&x.Id, &x.Remover}).Draw(t, "f"))
	case *pnfttypes.MsgTransferDenomRequest:
		set(rapid.SampledFrom([]*string{&x.Id, &x.Sender, &x.Receiver}).Draw(t, "f"))
	case *pnfttypes.MsgMintPNFTRequest:
		set(rapid.SampledFrom([]*string{&x.DenomId, &x.Id, &x.Name, &x.Description, &x.Uri, &x.UriHash, &x.Data, &x.Creator}).Draw(t, "f"))
	case *pnfttypes.MsgTransferPNFTRequest:
		set(rapid.SampledFrom([]*string{&x.DenomId, &x.Id, &x.Sender, &x.Receiver}).Draw(t, "f"))
	case *pnfttypes.MsgBurnPNFTRequest:
		set(rapid.SampledFrom([]*string{&x.DenomId, &x.Id, &x.Burner}).Draw(t, "f"))
	}
	return out
}

// genHostileMsg: a boundary-directed message, optionally with one extra hostile field.
func genHostileMsg(t *rapid.T) sdk.Msg {
	m, _ := genC16Msg(t)
	if rapid.IntRange(0, 2).Draw(t, "extra-hostile") == 0 {
		m = hostileMutate(t, m)
	}
	return m
}

func TestC17Direct(t *testing.T) {
	st := newPureStats("C17")
	defer st.flush()
	rapid.Check(t, func(rt *rapid.T) {
		m := genHostileMsg(rt)
		bz, _ := proto.Marshal(m)
		if msg := checkTotalMsg(m, st); msg != "" {
			failPure(rt, "C17", "c17-msg", map[string]interface{}{"type_url": sdk.MsgTypeURL(m), "value_b64": base64.StdEncoding.EncodeToString(bz)}, "%s", msg)
		}
		st.add(true, hash8(bz, []byte(sdk.MsgTypeURL(m))), map[string]interface{}{"msg": trunc([]byte(fmt.Sprintf("%T %v", m, m)), 200)}, "direct call "+sdk.MsgTypeURL(m))
	})
}

// ---- hostile queries ------------------------------------------------------------------------------

func genPage(t *rapid.T) *query.PageRequest {
	switch rapid.IntRange(0, 5).Draw(t, "page") {
	case 0:
		return nil
	case 1:
		return &query.PageRequest{Limit: rapid.SampledFrom([]uint64{0, 1, 100, ^uint64(0)}).Draw(t, "limit"), CountTotal: rapid.Bool().Draw(t, "ct"), Reverse: rapid.Bool().Draw(t, "rev")}
	case 2:
		return &query.PageRequest{Offset: rapid.SampledFrom([]uint64{0, 1, 1 << 63, ^uint64(0)}).Draw(t, "off"), Limit: rapid.SampledFrom([]uint64{0, 1, ^uint64(0)}).Draw(t, "limit"), Reverse: rapid.Bool().Draw(t, "rev")}
	case 3:
		return &query.PageRequest{Key: rapid.SliceOfN(rapid.Byte(), 0, 300).Draw(t, "key"), Limit: rapid.SampledFrom([]uint64{0, 1, ^uint64(0)}).Draw(t, "limit"), Reverse: rapid.Bool().Draw(t, "rev")}
	case 4:
		return &query.PageRequest{Key: []byte{0x01}, Offset: 3}
	default:
		return &query.PageRequest{}
	}
}

// genHostileQuery draws (path, request bytes).
func genHostileQuery(t *rapid.T, live []string) world.QueryStep {
	addr := func(l string) string { return genAddr(t, l).s }
	hs := func(l string) string { return rapid.SampledFrom(hostileStrings).Draw(t, l) }
	name := func(l string) string {
		if len(live) > 0 && rapid.IntRange(0, 9).Draw(t, l+"-live") < 5 {
			return rapid.SampledFrom(live).Draw(t, l+"-live-name")
		}
		if rapid.Bool().Draw(t, l+"-plain") {
			return rapid.SampledFrom([]string{"a", "ab", "abc", "b"}).Draw(t, l)
		}
		return hs(l)
	}
	var path string
	var req interface{ Marshal() ([]byte, error) }
	switch rapid.IntRange(0, 12).Draw(t, "endpoint") {
	case 0:
		path, req = "/panacea.aol.v2.Query/Topic", &aoltypes.QueryTopicRequest{OwnerAddress: addr("owner"), TopicName: name("topic")}
	case 1:
		path, req = "/panacea.aol.v2.Query/Topics", &aoltypes.QueryTopicsRequest{OwnerAddress: addr("owner"), Pagination: genPage(t)}
	case 2:
		path, req = "/panacea.aol.v2.Query/Writer", &aoltypes.QueryWriterRequest{OwnerAddress: addr("owner"), TopicName: name("topic"), WriterAddress: addr("writer")}
	case 3:
		path, req = "/panacea.aol.v2.Query/Writers", &aoltypes.QueryWritersRequest{OwnerAddress: addr("owner"), TopicName: name("topic"), Pagination: genPage(t)}
	case 4:
		path, req = "/panacea.aol.v2.Query/Record", &aoltypes.QueryRecordRequest{OwnerAddress: addr("owner"), TopicName: name("topic"), Offset: rapid.SampledFrom([]uint64{0, 1, 1 << 63, ^uint64(0)}).Draw(t, "offset")}
	case 5:
		d := hs("did")
		if rapid.Bool().Draw(t, "b64") {
			d = base64.StdEncoding.EncodeToString([]byte(rapid.SampledFrom([]string{world.DIDKeys()[0].DID(), world.DIDKeys()[1].DID(), d}).Draw(t, "did-v")))
		}
		path, req = "/panacea.did.v2.Query/DID", &didtypes.QueryDIDRequest{DidBase64: d}
	case 6:
		path, req = "/panacea.pnft.v2.Query/Denoms", &pnfttypes.QueryDenomsRequest{Pagination: genPage(t)}
	case 7:
		path, req = "/panacea.pnft.v2.Query/DenomsByOwner", &pnfttypes.QueryDenomsByOwnerRequest{Owner: addr("owner")}
	case 8:
		path, req = "/panacea.pnft.v2.Query/Denom", &pnfttypes.QueryDenomRequest{Id: name("id")}
	case 9:
		path, req = "/panacea.pnft.v2.Query/PNFTs", &pnfttypes.QueryPNFTsRequest{DenomId: name("denom")}
	case 10:
		path, req = "/panacea.pnft.v2.Query/PNFTsByDenomOwner", &pnfttypes.QueryPNFTsByDenomOwnerRequest{DenomId: name("denom"), Owner: addr("owner")}
	case 11:
		path, req = "/panacea.pnft.v2.Query/PNFT", &pnfttypes.QueryPNFTRequest{DenomId: name("denom"), Id: name("id")}
	default:
		// arbitrary bytes on a random endpoint
		p := rapid.SampledFrom([]string{"/panacea.aol.v2.Query/Record", "/panacea.aol.v2.Query/Topics", "/panacea.did.v2.Query/DID", "/panacea.pnft.v2.Query/PNFT", "/panacea.pnft.v2.Query/Denoms"}).Draw(t, "raw-endpoint")
		return world.QueryStep{Path: p, Data: base64.StdEncoding.EncodeToString(rapid.SliceOfN(rapid.Byte(), 0, 64).Draw(t, "raw")), Height: 0, Raw: true}
	}
	bz, err := req.Marshal()
	if err != nil {
		panic(err)
	}
	return world.QueryStep{Path: path, Data: base64.StdEncoding.EncodeToString(bz), Height: int64(rapid.SampledFrom([]int{0, 0, 1, 2, 3, 1 << 40, -1}).Draw(t, "height"))}
}

var CfgC17 = reg(&MachineCfg{
	Prop: "C17",
	Setup: func(g *G, opt *world.Options) {
		// state no transaction can leave behind but a genesis file can: owner strings that are
		// no addresses, addresses of other lengths, tokens without creation time
		cdc := app.MakeEncodingConfig().Codec
		if g.chance("pnft-genesis-mode", 25) {
			opt.PnftGenesis = g.genPnftGenesis(cdc, true)
		}
		if g.chance("aol-genesis-mode", 15) {
			opt.AolGenesis = g.genAolGenesis(cdc, true)
		}
		if g.chance("did-genesis-mode", 15) {
			opt.DidGenesis = g.genDidGenesis(cdc, world.DIDKeys())
		}
	},
	Gens: []interface{}{"hostile_tx", 30, "hostile_query", 26, "aol", 10, "did", 8, "pnft", 10, "burn", 3, "authz", 3, "commit", 10},
	Bias: map[string]int{"right-signers": 96, "exec": 10, "right-proof": 70, "adversarial-ids": 1, "proof-empty-id": 8},
	Rule: "pipeline half of C17: hostile messages (boundary-directed fields, absent sub-messages, 255/256/70000-byte strings, NUL, invalid UTF-8, malformed addresses) are delivered as signed transactions, alone and inside authz exec, into a populated chain, hostile query requests (all 12 custom endpoints, extreme offsets and pagination, arbitrary request bytes, latest/historical/non-existing heights) are served, and further blocks are produced; oracle = no DeliverTx/Query returns baseapp's recovered-panic error and BeginBlock/EndBlock/Commit never panic; non-trivial = >=3 hostile txs and >=3 hostile queries that were decoded and reached the entry point",
	NonTrivial: func(w *world.World) bool {
		return lab(w, "c17 hostile tx delivered") >= 3 && lab(w, "c17 query reached handler") >= 3
	},
	Step: func(g *G, kind string) *world.Step {
		switch kind {
		case "burn":
			return burnStep(g, kind)
		case "hostile_tx":
			m := genHostileMsg(g.T)
			ts := g.wrapTx([]sdk.Msg{m}, "hostile "+sdk.MsgTypeURL(m), false)
			ts.Note += " [hostile]"
			return &world.Step{Kind: "tx", Tx: ts}
		case "hostile_query":
			var qs []world.QueryStep
			live := map[string]bool{}
			for id := range g.W.PNFT.Denoms {
				live[id] = true
			}
			for k := range g.W.PNFT.Tokens {
				live[k.ID] = true
				live[k.Denom] = true
			}
			for _, tp := range g.W.AOL.Topics {
				live[tp.Name] = true
			}
			names := sortedKeys(live)
			for i := 0; i < 6; i++ {
				qs = append(qs, genHostileQuery(g.T, names))
			}
			return &world.Step{Kind: "queries", Queries: qs}
		}
		return nil
	},
})

func TestC17Pipeline(t *testing.T) { runMachine(t, CfgC17) }

// ---- key store ------------------------------------------------------------------------------------

type ksFile struct {
	Version int    `json:"version"`
	ID      string `json:"id"`
	Address string `json:"address"`
	Crypto  struct {
		Cipher       string `json:"cipher"`
		CipherText   string `json:"ciphertext"`
		CipherParams struct {
			IV string `json:"iv"`
		} `json:"cipherparams"`
		KDF       string `json:"kdf"`
		KDFParams struct {
			C     int    `json:"c"`
			DKLen int    `json:"dklen"`
			PRF   string `json:"prf"`
			Salt  string `json:"salt"`
		} `json:"kdfparams"`
		MAC string `json:"mac"`
	} `json:"crypto"`
}

// knownKeystorePanic: open-finding classes of key-store files.
func knownKeystorePanic(f *ksFile) string {
	open := OpenFindings()
	iv, err := hex.DecodeString(f.Crypto.CipherParams.IV)
	if open["C17-keystore-dklen"] && f.Crypto.KDFParams.DKLen <= 0 {
		return "C17-keystore-dklen"
	}
	if open["C17-keystore-iv"] && err == nil && len(iv) != 16 {
		return "C17-keystore-iv"
	}
	return ""
}

func checkKeystoreLoad(dir string, content []byte, passwd string) (panicMsg string) {
	path := filepath.Join(dir, "UTC--x--key.json")
	if err := os.WriteFile(path, content, 0o600); err != nil {
		panic(err)
	}
	defer os.Remove(path)
	ks, err := didcrypto.NewKeyStore(dir)
	if err != nil {
		panic(err)
	}
	return callNoPanic(func() { _, _ = ks.Load(path, passwd) })
}

func TestC17KeyStore(t *testing.T) {
	st := newPureStats("C17")
	defer st.flush()
	dir := caseDir("c17-ks-")
	defer os.RemoveAll(dir)
	rapid.Check(t, func(rt *rapid.T) {
		var f ksFile
		pw := rapid.SampledFrom([]string{"", "pw", "пароль", strings.Repeat("p", 300)}).Draw(rt, "passwd")
		f.Version = rapid.SampledFrom([]int{3, 3, 3, 3, 0, 4, -1}).Draw(rt, "version")
		f.Address = rapid.SampledFrom([]string{"a", "", "did:panacea:x#key1"}).Draw(rt, "address")
		f.Crypto.Cipher = rapid.SampledFrom([]string{"aes-128-ctr", "aes-128-ctr", "aes-128-ctr", "aes-256-ctr", ""}).Draw(rt, "cipher")
		f.Crypto.KDF = rapid.SampledFrom([]string{"pbkdf2", "pbkdf2", "pbkdf2", "scrypt", ""}).Draw(rt, "kdf")
		f.Crypto.KDFParams.PRF = rapid.SampledFrom([]string{"hmac-sha256", "hmac-sha256", "hmac-sha256", "hmac-sha512"}).Draw(rt, "prf")
		// c and dklen are clamped so that a slow KDF is never mistaken for a hang
		f.Crypto.KDFParams.C = rapid.SampledFrom([]int{0, 1, 2, 16, 1024, -1}).Draw(rt, "c")
		f.Crypto.KDFParams.DKLen = rapid.SampledFrom([]int{32, 32, 32, 0, -1, 1, 15, 16, 17, 31, 33, 64, 4096, -1 << 31}).Draw(rt, "dklen")
		salt := rapid.SliceOfN(rapid.Byte(), 0, 40).Draw(rt, "salt")
		f.Crypto.KDFParams.Salt = hex.EncodeToString(salt)
		ct := rapid.SliceOfN(rapid.Byte(), 0, 80).Draw(rt, "ciphertext")
		f.Crypto.CipherText = hex.EncodeToString(ct)
		ivLen := rapid.SampledFrom([]int{16, 16, 16, 0, 1, 15, 17, 32}).Draw(rt, "ivlen")
		f.Crypto.CipherParams.IV = hex.EncodeToString(make([]byte, ivLen))
		// a MAC that matches (so that decryption is reached) most of the time
		macMode := rapid.SampledFrom([]string{"match", "match", "match", "wrong", "nothex"}).Draw(rt, "mac")
		switch macMode {
		case "match":
			func() {
				defer func() {
					if recover() != nil {
						f.Crypto.MAC = "00"
					}
				}()
				if f.Crypto.KDFParams.C <= 0 || f.Crypto.KDFParams.DKLen <= 0 {
					f.Crypto.MAC = "00"
					return
				}
				dk := pbkdf2.Key([]byte(pw), salt, f.Crypto.KDFParams.C, f.Crypto.KDFParams.DKLen, sha256.New)
				h := sha3.NewLegacyKeccak256()
				h.Write(dk[16:32])
				h.Write(ct)
				f.Crypto.MAC = hex.EncodeToString(h.Sum(nil))
			}()
		case "wrong":
			f.Crypto.MAC = hex.EncodeToString(make([]byte, 32))
		default:
			f.Crypto.MAC = "zz"
		}
		content, _ := json.Marshal(f)
		switch rapid.IntRange(0, 9).Draw(rt, "file-shape") {
		case 0:
			content = rapid.SliceOfN(rapid.Byte(), 0, 200).Draw(rt, "garbage")
		case 1:
			content = content[:len(content)/2]
		case 2:
			content = []byte(`{"version":3,"crypto":null}`)
		case 3:
			content = []byte(`{"version":3,"crypto":{"cipher":"aes-128-ctr","kdf":"pbkdf2","kdfparams":{"prf":"hmac-sha256","dklen":"32"}}}`)
		}
		if p := checkKeystoreLoad(dir, content, pw); p != "" {
			if k := knownKeystorePanic(&f); k != "" {
				st.label("excluded: "+k, 1)
			} else {
				failPure(rt, "C17", "c17-keystore", map[string]interface{}{"file_b64": base64.StdEncoding.EncodeToString(content), "passwd": pw}, "KeyStore.Load panicked: %s", p)
			}
		}
		reached := f.Version == 3 && f.Crypto.Cipher == "aes-128-ctr" && f.Crypto.KDF == "pbkdf2" && f.Crypto.KDFParams.PRF == "hmac-sha256"
		st.add(reached, hash8(content, []byte(pw)), map[string]interface{}{"file": trunc(content, 300)}, "keystore file")
	})
}

func init() {
	otherReplays["c17-msg"] = func(t *testing.T, raw []byte) {
		var doc struct {
			Input world.MsgJSON `json:"input"`
		}
		if err := json.Unmarshal(raw, &doc); err != nil {
			t.Fatal(err)
		}
		w, err := world.New(world.Options{Prop: "none"})
		if err != nil {
			t.Fatal(err)
		}
		m, err := w.DecodeMsg(doc.Input)
		if err != nil {
			t.Fatal(err)
		}
		if msg := checkTotalMsg(m, newPureStats("C17")); msg != "" {
			fmt.Printf("REPLAY-VIOLATION property=C17 %s\n", msg)
			t.Fatalf("violation reproduced: %s", msg)
		}
	}
	otherReplays["c17-keystore"] = func(t *testing.T, raw []byte) {
		var doc struct {
			Input struct {
				File   string `json:"file_b64"`
				Passwd string `json:"passwd"`
			} `json:"input"`
		}
		if err := json.Unmarshal(raw, &doc); err != nil {
			t.Fatal(err)
		}
		content, _ := base64.StdEncoding.DecodeString(doc.Input.File)
		dir := caseDir("c17-ks-")
		defer os.RemoveAll(dir)
		if p := checkKeystoreLoad(dir, content, doc.Input.Passwd); p != "" {
			fmt.Printf("REPLAY-VIOLATION property=C17 KeyStore.Load panicked: %s\n", p)
			t.Fatalf("violation reproduced: %s", p)
		}
	}
	_ = simnet.ChainID
}
