package props

import (
	"bytes"
	"encoding/base64"
	"encoding/json"
	"fmt"
	"reflect"
	"regexp"
	"strings"
	"testing"
	"unicode/utf8"

	"github.com/btcsuite/btcutil/base58"
	"github.com/cosmos/cosmos-sdk/client"
	"github.com/cosmos/cosmos-sdk/codec"
	codectypes "github.com/cosmos/cosmos-sdk/codec/types"
	sdk "github.com/cosmos/cosmos-sdk/types"
	"github.com/cosmos/cosmos-sdk/types/tx/signing"
	"github.com/cosmos/cosmos-sdk/x/auth/migrations/legacytx"
	authsigning "github.com/cosmos/cosmos-sdk/x/auth/signing"
	"github.com/cosmos/cosmos-sdk/x/authz"
	"github.com/gogo/protobuf/jsonpb"
	"github.com/gogo/protobuf/proto"
	"github.com/medibloc/panacea-core/v2/app"
	aoltypes "github.com/medibloc/panacea-core/v2/x/aol/types"
	didtypes "github.com/medibloc/panacea-core/v2/x/did/types"
	pnfttypes "github.com/medibloc/panacea-core/v2/x/pnft/types"
	"pgregory.net/rapid"

	"verifharness/simnet"
	"verifharness/world"
)

var c14Modes = []struct {
	name string
	mode signing.SignMode
}{
	{"direct", signing.SignMode_SIGN_MODE_DIRECT},
	{"direct-aux", signing.SignMode_SIGN_MODE_DIRECT_AUX},
	{"amino-json", signing.SignMode_SIGN_MODE_LEGACY_AMINO_JSON},
}

// msgFactories: one empty instance per custom message type (14 types).
var msgFactories = []func() sdk.Msg{
	func() sdk.Msg { return &aoltypes.MsgCreateTopicRequest{} },
	func() sdk.Msg { return &aoltypes.MsgAddWriterRequest{} },
	func() sdk.Msg { return &aoltypes.MsgDeleteWriterRequest{} },
	func() sdk.Msg { return &aoltypes.MsgAddRecordRequest{} },
	func() sdk.Msg { return &didtypes.MsgCreateDIDRequest{} },
	func() sdk.Msg { return &didtypes.MsgUpdateDIDRequest{} },
	func() sdk.Msg { return &didtypes.MsgDeactivateDIDRequest{} },
	func() sdk.Msg { return &pnfttypes.MsgCreateDenomRequest{} },
	func() sdk.Msg { return &pnfttypes.MsgUpdateDenomRequest{} },
	func() sdk.Msg { return &pnfttypes.MsgDeleteDenomRequest{} },
	func() sdk.Msg { return &pnfttypes.MsgTransferDenomRequest{} },
	func() sdk.Msg { return &pnfttypes.MsgMintPNFTRequest{} },
	func() sdk.Msg { return &pnfttypes.MsgTransferPNFTRequest{} },
	func() sdk.Msg { return &pnfttypes.MsgBurnPNFTRequest{} },
}

type c14env struct {
	fresh     client.TxConfig
	freshUses int
	txc       client.TxConfig
	acct      simnet.Account
	other     simnet.Account
}

func newC14Env() *c14env {
	simnet.Setup()
	return &c14env{txc: app.MakeEncodingConfig().TxConfig, acct: simnet.NewAccount("a0"), other: simnet.NewAccount("a5")}
}

// signBytes returns what an account signs for a tx carrying exactly msg, or an error/panic
// description when the mode cannot sign this message at all.
func (e *c14env) signBytes(txc client.TxConfig, mode signing.SignMode, msg sdk.Msg) (bz []byte, err error) {
	return e.signBytesN(txc, mode, []sdk.Msg{msg})
}

// signBytesN: what an account signs for a tx carrying the given message list.
func (e *c14env) signBytesN(txc client.TxConfig, mode signing.SignMode, msgs []sdk.Msg) (bz []byte, err error) {
	msg := msgs[0]
	defer func() {
		if r := recover(); r != nil {
			err = fmt.Errorf("mode unusable: %v", r)
		}
	}()
	b := txc.NewTxBuilder()
	if err := b.SetMsgs(msgs...); err != nil {
		return nil, err
	}
	b.SetGasLimit(200000)
	b.SetFeeAmount(sdk.NewCoins(sdk.NewInt64Coin("umed", 5)))
	b.SetMemo("memo")
	signer := e.acct
	if mode == signing.SignMode_SIGN_MODE_DIRECT_AUX {
		signer = e.other // the fee payer (first signer) may not use DIRECT_AUX
		if rs := world.RequiredSigners(msg); len(rs) > 0 && rs[0] == signer.Bech {
			signer = e.acct
		}
	}
	sd := authsigning.SignerData{ChainID: simnet.ChainID, AccountNumber: 7, Sequence: 3, Address: signer.Bech, PubKey: signer.Priv.PubKey()}
	return txc.SignModeHandler().GetSignBytes(mode, sd, b.GetTx())
}

func protoOf(m sdk.Msg) []byte {
	bz, err := proto.Marshal(m)
	if err != nil {
		panic(err)
	}
	return bz
}

func sameMessage(a, b sdk.Msg) bool {
	return sdk.MsgTypeURL(a) == sdk.MsgTypeURL(b) && bytes.Equal(protoOf(a), protoOf(b))
}

// transplant copies every same-named field of src into a fresh message of another type
// (through the protobuf JSON form, unknown fields ignored).
func transplant(src sdk.Msg, dst sdk.Msg) sdk.Msg {
	js, err := (&jsonpb.Marshaler{}).MarshalToString(src)
	if err != nil {
		return nil
	}
	if err := (&jsonpb.Unmarshaler{AllowUnknownFields: true}).Unmarshal(strings.NewReader(js), dst); err != nil {
		return nil
	}
	return dst
}

// knownCollision reports whether the colliding pair is one of the open findings.
func knownCollision(mode string, a, b sdk.Msg) string {
	if mode != "amino-json" {
		return ""
	}
	ua, ub := sdk.MsgTypeURL(a), sdk.MsgTypeURL(b)
	pair := func(x, y string) bool { return ua == x && ub == y || ua == y && ub == x }
	open := OpenFindings()
	if open["C14-amino-did-create-update"] && pair("/panacea.did.v2.MsgCreateDIDRequest", "/panacea.did.v2.MsgUpdateDIDRequest") {
		return "C14-amino-did-create-update"
	}
	if open["C14-amino-invalid-utf8"] && (hasInvalidUTF8(a) || hasInvalidUTF8(b)) {
		return "C14-amino-invalid-utf8"
	}
	if open["C14-amino-aol-unwrapped"] && strings.HasPrefix(ua, "/panacea.aol.") && strings.HasPrefix(ub, "/panacea.aol.") && ua != ub {
		return "C14-amino-aol-unwrapped"
	}
	return ""
}

// hasInvalidUTF8 reports whether a string field anywhere in the message is not valid UTF-8.
func hasInvalidUTF8(m sdk.Msg) bool {
	bad := false
	var walk func(v reflect.Value)
	walk = func(v reflect.Value) {
		switch v.Kind() {
		case reflect.Ptr, reflect.Interface:
			if !v.IsNil() {
				walk(v.Elem())
			}
		case reflect.Struct:
			for i := 0; i < v.NumField(); i++ {
				if v.Type().Field(i).PkgPath == "" {
					walk(v.Field(i))
				}
			}
		case reflect.Slice:
			if v.Type().Elem().Kind() != reflect.Uint8 {
				for i := 0; i < v.Len(); i++ {
					walk(v.Index(i))
				}
			}
		case reflect.String:
			if !utf8.ValidString(v.String()) {
				bad = true
			}
		}
	}
	walk(reflect.ValueOf(m))
	return bad
}

type c14pair struct {
	A, B MsgJSONPair
	Mode string
}

type MsgJSONPair struct {
	TypeURL string `json:"type_url"`
	Value   string `json:"value_b64"`
}

func pairJSON(m sdk.Msg) MsgJSONPair {
	return MsgJSONPair{sdk.MsgTypeURL(m), base64.StdEncoding.EncodeToString(protoOf(m))}
}

// aminoRoundTrip: the module's own canonical JSON of a message (what legacy amino JSON signs)
// must parse back, with the module's codec, into exactly that message. A rendering that drops,
// merges, re-interprets or injects anything fails this for some value.
func aminoRoundTrip(m sdk.Msg) string {
	lm, ok := m.(legacytx.LegacyMsg)
	if !ok || hasInvalidUTF8(m) {
		return "" // not signable in this mode / open finding C14-amino-invalid-utf8
	}
	var cdc *codec.AminoCodec
	switch {
	case strings.HasPrefix(sdk.MsgTypeURL(m), "/panacea.aol."):
		cdc = aoltypes.ModuleCdc
	case strings.HasPrefix(sdk.MsgTypeURL(m), "/panacea.did."):
		cdc = didtypes.ModuleCdc
	default:
		return ""
	}
	var bz []byte
	if err := func() (err error) {
		defer func() {
			if r := recover(); r != nil {
				err = fmt.Errorf("%v", r)
			}
		}()
		bz = lm.GetSignBytes()
		return nil
	}(); err != nil {
		return fmt.Sprintf("GetSignBytes of a valid %s panics for this value: %v", sdk.MsgTypeURL(m), err)
	}
	o := reflect.New(reflect.TypeOf(m).Elem()).Interface().(sdk.Msg)
	if err := cdc.UnmarshalJSON(bz, o.(proto.Message)); err != nil {
		return fmt.Sprintf("the amino JSON sign bytes of %s do not parse back into the message: %v: %s", sdk.MsgTypeURL(m), err, trunc(bz, 300))
	}
	// present-but-empty and absent repeated fields are the same content (JSON omits both)
	mc := reflect.New(reflect.TypeOf(m).Elem()).Interface().(sdk.Msg)
	if err := proto.Unmarshal(protoOf(m), mc); err != nil {
		return ""
	}
	normEmpty(reflect.ValueOf(mc))
	normEmpty(reflect.ValueOf(o))
	if !bytes.Equal(protoOf(o), protoOf(mc)) {
		return fmt.Sprintf("the amino JSON sign bytes of %s parse back into a different message: %s", sdk.MsgTypeURL(m), trunc(bz, 300))
	}
	return ""
}

// normEmpty replaces empty slices and pointers to empty slices by nil, recursively.
func normEmpty(v reflect.Value) {
	switch v.Kind() {
	case reflect.Ptr:
		if v.IsNil() {
			return
		}
		if e := v.Elem(); e.Kind() == reflect.Slice && e.Len() == 0 && v.CanSet() {
			v.Set(reflect.Zero(v.Type()))
			return
		}
		normEmpty(v.Elem())
	case reflect.Interface:
		if !v.IsNil() {
			normEmpty(v.Elem())
		}
	case reflect.Struct:
		for i := 0; i < v.NumField(); i++ {
			if v.Type().Field(i).PkgPath == "" {
				normEmpty(v.Field(i))
			}
		}
	case reflect.Slice:
		if v.Len() == 0 {
			if !v.IsNil() && v.CanSet() {
				v.Set(reflect.Zero(v.Type()))
			}
			return
		}
		if v.Type().Elem().Kind() != reflect.Uint8 {
			for i := 0; i < v.Len(); i++ {
				normEmpty(v.Index(i))
			}
		}
	}
}

// checkPair evaluates injectivity and determinism for one ordered pair in all modes.
// It returns (violation text, known-finding key, modes usable).
func (e *c14env) checkPair(a, b sdk.Msg, st *pureStats) (string, *c14pair) {
	for _, m := range []sdk.Msg{a, b} {
		// stateless validation runs on the node BEFORE the signature is verified: it must not
		// change what is signed
		before := protoOf(m)
		var sb0 []byte
		if lm, ok := m.(legacytx.LegacyMsg); ok {
			func() {
				defer func() { _ = recover() }()
				sb0 = lm.GetSignBytes()
			}()
		}
		valid := safeValidate(m) == nil
		if !bytes.Equal(before, protoOf(m)) {
			return fmt.Sprintf("ValidateBasic of %s modifies the message it validates (the node verifies signatures over the modified message)", sdk.MsgTypeURL(m)), &c14pair{MsgJSONPair{sdk.MsgTypeURL(m), base64.StdEncoding.EncodeToString(before)}, pairJSON(m), "amino-json"}
		}
		if lm, ok := m.(legacytx.LegacyMsg); ok && sb0 != nil {
			var sb1 []byte
			func() {
				defer func() { _ = recover() }()
				sb1 = lm.GetSignBytes()
			}()
			if sb1 != nil && !bytes.Equal(sb0, sb1) {
				return fmt.Sprintf("the sign bytes of %s differ before and after ValidateBasic", sdk.MsgTypeURL(m)), &c14pair{pairJSON(m), pairJSON(m), "amino-json"}
			}
		}
		if valid {
			if why := aminoRoundTrip(m); why != "" {
				return why, &c14pair{pairJSON(m), pairJSON(m), "amino-json"}
			}
			st.label("amino sign bytes parsed back", 1)
		}
	}
	for _, md := range c14Modes {
		sa, erra := e.signBytes(e.txc, md.mode, a)
		sb, errb := e.signBytes(e.txc, md.mode, b)
		if erra != nil || errb != nil {
			st.label("mode unusable for message ("+md.name+")", 1)
			continue
		}
		// determinism: a fresh encoding configuration computes the same bytes
		if e.fresh == nil || e.freshUses > 200 {
			e.fresh, e.freshUses = app.MakeEncodingConfig().TxConfig, 0
		}
		e.freshUses++
		if sa2, err := e.signBytes(e.fresh, md.mode, a); err != nil || !bytes.Equal(sa, sa2) {
			return fmt.Sprintf("sign bytes of %s in mode %s differ between two computations", sdk.MsgTypeURL(a), md.name), &c14pair{pairJSON(a), pairJSON(a), md.name}
		}
		if bytes.Equal(sa, sb) && !sameMessage(a, b) {
			// the statement quantifies over messages that pass stateless validation
			if safeValidate(a) != nil || safeValidate(b) != nil {
				st.label("colliding pair with an invalid member (not asserted)", 1)
				continue
			}
			if k := knownCollision(md.name, a, b); k != "" {
				st.label("excluded: "+k, 1)
				continue
			}
			return fmt.Sprintf("mode %s: %s and %s (different messages) share the sign bytes %q", md.name, sdk.MsgTypeURL(a), sdk.MsgTypeURL(b), trunc(sa, 300)), &c14pair{pairJSON(a), pairJSON(b), md.name}
		}
		st.label("pair checked ("+md.name+")", 1)
	}
	return "", nil
}

func safeValidate(m sdk.Msg) (err error) {
	defer func() {
		if r := recover(); r != nil {
			err = fmt.Errorf("panic: %v", r)
		}
	}()
	return m.ValidateBasic()
}

func trunc(b []byte, n int) string {
	if len(b) > n {
		return string(b[:n]) + "..."
	}
	return string(b)
}

// ---- valid message generator --------------------------------------------------------------------

func c14Doc(t *rapid.T, did string) *didtypes.DIDDocument {
	keys := world.DIDKeys()
	k := keys[rapid.IntRange(0, 2).Draw(t, "key")]
	doc := &didtypes.DIDDocument{Id: did}
	if rapid.Bool().Draw(t, "ctx") {
		doc.Contexts = &didtypes.JSONStringOrStrings{ctxV1}
	}
	switch rapid.IntRange(0, 5).Draw(t, "ctl") {
	case 0:
		doc.Controller = &didtypes.JSONStringOrStrings{did}
	case 1:
		doc.Controller = &didtypes.JSONStringOrStrings{did, world.DIDKeys()[2].DID()}
	}
	vm := &didtypes.VerificationMethod{Id: did + "#k", Type: es256k2019, Controller: did, PublicKeyBase58: base58.Encode(k.Pub)}
	doc.VerificationMethods = []*didtypes.VerificationMethod{vm}
	if rapid.Bool().Draw(t, "dedicated") {
		doc.Authentications = []didtypes.VerificationRelationship{didtypes.NewVerificationRelationshipDedicated(*vm)}
	} else {
		doc.Authentications = []didtypes.VerificationRelationship{didtypes.NewVerificationRelationship(vm.Id)}
	}
	if rapid.IntRange(0, 3).Draw(t, "svc") == 0 {
		doc.Services = []*didtypes.Service{{Id: "s", Type: "t", ServiceEndpoint: "e"}}
	}
	return doc
}

// genValidMsg draws a message of type index ti that passes stateless validation, with
// optional fields empty most of the time.
func genValidMsg(t *rapid.T, ti int) sdk.Msg {
	accts := simnet.DefaultAccounts(3)
	addr := func(l string) string {
		a := accts[rapid.IntRange(0, 2).Draw(t, l)].Bech
		if rapid.IntRange(0, 11).Draw(t, l+"-upper") == 0 {
			return strings.ToUpper(a) // a legal spelling of the same address
		}
		return a
	}
	str := func(l string) string {
		// free-text fields are not checked for UTF-8 by stateless validation
		return rapid.SampledFrom([]string{"", "", "", "a", "a", "ab", "b", "a\xffb", "a\xfeb"}).Draw(t, l)
	}
	req := func(l string) string { return rapid.SampledFrom([]string{"a", "ab", "b", "ba"}).Draw(t, l) }
	byt := func(l string) []byte {
		// lengths next to powers of two and to the documented limits (key 70, value 5000)
		return rapid.SampledFrom([][]byte{nil, nil, []byte("a"), []byte("ab"), []byte("a"), bytes.Repeat([]byte("v"), 32), bytes.Repeat([]byte("v"), 70),
			bytes.Repeat([]byte("v"), 1024), bytes.Repeat([]byte("v"), 1025), bytes.Repeat([]byte("v"), 5000)}).Draw(t, l)
	}
	dids := []string{world.DIDKeys()[0].DID(), world.DIDKeys()[1].DID()}
	did := rapid.SampledFrom(dids).Draw(t, "did")
	sig := rapid.SampledFrom([][]byte{[]byte("s"), []byte("sig")}).Draw(t, "sig")
	switch ti {
	case 0:
		return &aoltypes.MsgCreateTopicRequest{TopicName: req("topic"), Description: str("desc"), OwnerAddress: addr("owner")}
	case 1:
		return &aoltypes.MsgAddWriterRequest{TopicName: req("topic"), Moniker: str("moniker"), Description: str("desc"), WriterAddress: addr("writer"), OwnerAddress: addr("owner")}
	case 2:
		return &aoltypes.MsgDeleteWriterRequest{TopicName: req("topic"), WriterAddress: addr("writer"), OwnerAddress: addr("owner")}
	case 3:
		fp := ""
		if rapid.IntRange(0, 3).Draw(t, "fp") == 0 {
			fp = addr("payer")
		}
		return &aoltypes.MsgAddRecordRequest{TopicName: req("topic"), Key: byt("key"), Value: byt("value"), WriterAddress: addr("writer"), OwnerAddress: addr("owner"), FeePayerAddress: fp}
	case 4:
		return &didtypes.MsgCreateDIDRequest{Did: did, Document: c14Doc(t, did), VerificationMethodId: did + "#k", Signature: sig, FromAddress: addr("from")}
	case 5:
		return &didtypes.MsgUpdateDIDRequest{Did: did, Document: c14Doc(t, did), VerificationMethodId: did + "#k", Signature: sig, FromAddress: addr("from")}
	case 6:
		return &didtypes.MsgDeactivateDIDRequest{Did: did, VerificationMethodId: did + "#k", Signature: sig, FromAddress: addr("from")}
	case 7:
		return &pnfttypes.MsgCreateDenomRequest{Id: req("id"), Name: req("name"), Symbol: req("symbol"), Description: str("desc"), Uri: str("uri"), UriHash: str("hash"), Data: str("data"), Creator: addr("creator")}
	case 8:
		return &pnfttypes.MsgUpdateDenomRequest{Id: req("id"), Name: str("name"), Symbol: str("symbol"), Description: str("desc"), Uri: str("uri"), UriHash: str("hash"), Data: str("data"), Updater: addr("updater")}
	case 9:
		return &pnfttypes.MsgDeleteDenomRequest{Id: req("id"), Remover: addr("remover")}
	case 10:
		return &pnfttypes.MsgTransferDenomRequest{Id: req("id"), Sender: addr("sender"), Receiver: addr("receiver")}
	case 11:
		return &pnfttypes.MsgMintPNFTRequest{DenomId: req("denom"), Id: req("id"), Name: req("name"), Description: str("desc"), Uri: str("uri"), UriHash: str("hash"), Data: str("data"), Creator: addr("creator")}
	case 12:
		return &pnfttypes.MsgTransferPNFTRequest{DenomId: req("denom"), Id: req("id"), Sender: addr("sender"), Receiver: addr("receiver")}
	default:
		return &pnfttypes.MsgBurnPNFTRequest{DenomId: req("denom"), Id: req("id"), Burner: addr("burner")}
	}
}

// mutSite is one place of a message (found by reflection, nested messages and repeated
// fields included) where a structural edit can be made.
type mutSite struct {
	path  string
	apply func(t *rapid.T) string
	str   *string // current value, for string sites
}

func mutSites(v reflect.Value, path string, out *[]mutSite) {
	switch v.Kind() {
	case reflect.Ptr:
		if !v.IsNil() {
			mutSites(v.Elem(), path, out)
		}
	case reflect.Struct:
		for i := 0; i < v.NumField(); i++ {
			f := v.Type().Field(i)
			if f.PkgPath != "" || strings.HasPrefix(f.Name, "XXX_") {
				continue
			}
			mutSites(v.Field(i), path+"."+f.Name, out)
		}
	case reflect.Interface:
		if !v.IsNil() {
			mutSites(v.Elem(), path, out)
		}
	case reflect.String:
		if v.CanSet() {
			*out = append(*out, mutSite{path, func(t *rapid.T) string {
				switch rapid.IntRange(0, 5).Draw(t, "string-edit") {
				case 5:
					c := rapid.SampledFrom([]string{"\"", "\\", ",", "\\u0031", "}", "\",\"", "<", "&"}).Draw(t, "json-char")
					v.SetString(v.String() + c)
					return "JSON-significant characters appended"
				case 0:
					v.SetString(v.String() + "a")
					return "character appended"
				case 1:
					if s := v.String(); len(s) > 0 {
						v.SetString(s[:len(s)-1])
						return "last character dropped"
					}
				case 2:
					// the value of another string field of the same message (e.g. fee payer := writer)
					var others []string
					for _, o := range *out {
						if o.str != nil && o.path != path && *o.str != "" && *o.str != v.String() {
							others = append(others, *o.str)
						}
					}
					if len(others) > 0 {
						v.SetString(rapid.SampledFrom(others).Draw(t, "copied-from"))
						return "set to the value of another field"
					}
				case 3:
					if v.String() != "" {
						v.SetString("")
						return "emptied"
					}
				}
				v.SetString(v.String() + " ")
				return "blank appended"
			}, nil})
			cur := v.String()
			(*out)[len(*out)-1].str = &cur
		}
	case reflect.Slice:
		if v.Type().Elem().Kind() == reflect.Uint8 {
			if v.CanSet() {
				*out = append(*out, mutSite{path, func(t *rapid.T) string {
					v.SetBytes(append(append([]byte{}, v.Bytes()...), 0))
					return "zero byte appended"
				}, nil})
			}
			return
		}
		if v.CanSet() && v.Len() > 0 {
			*out = append(*out, mutSite{path, func(t *rapid.T) string {
				n := v.Len()
				i := rapid.IntRange(0, n-1).Draw(t, "element")
				switch rapid.IntRange(0, 2).Draw(t, "list-edit") {
				case 0: // repeat an element (next to itself or at the end)
					nv := reflect.MakeSlice(v.Type(), 0, n+1)
					for j := 0; j < n; j++ {
						nv = reflect.Append(nv, v.Index(j))
					}
					nv = reflect.Append(nv, v.Index(i))
					v.Set(nv)
					return "element repeated"
				case 1:
					if n > 1 {
						j := (i + 1) % n
						a, b := reflect.ValueOf(v.Index(i).Interface()), reflect.ValueOf(v.Index(j).Interface())
						v.Index(i).Set(b)
						v.Index(j).Set(a)
						return "two elements swapped"
					}
				}
				nv := reflect.MakeSlice(v.Type(), 0, n)
				for j := 0; j < n; j++ {
					if j != i {
						nv = reflect.Append(nv, v.Index(j))
					}
				}
				v.Set(nv)
				return "element removed"
			}, nil})
		}
		for i := 0; i < v.Len(); i++ {
			mutSites(v.Index(i), fmt.Sprintf("%s[%d]", path, i), out)
		}
	}
}

// structuralMutation copies m and edits one place of the copy found by reflection.
func structuralMutation(t *rapid.T, m sdk.Msg, ti int) (sdk.Msg, string) {
	return structuralMutationOf(t, m)
}

func structuralMutationOf(t *rapid.T, m sdk.Msg) (sdk.Msg, string) {
	o := reflect.New(reflect.TypeOf(m).Elem()).Interface().(sdk.Msg)
	if err := proto.Unmarshal(protoOf(m), o); err != nil {
		return nil, ""
	}
	var sites []mutSite
	mutSites(reflect.ValueOf(o), "", &sites)
	if len(sites) == 0 {
		return nil, ""
	}
	if rapid.IntRange(0, 3).Draw(t, "rename") == 0 {
		// consistent rename: a value that occurs in several places (a method id in the method
		// list, in a relationship and in the proof) is changed everywhere at once, so that the
		// message stays coherent
		byVal := map[string][]reflect.Value{}
		var vals []string
		var walk func(v reflect.Value)
		walk = func(v reflect.Value) {
			switch v.Kind() {
			case reflect.Ptr, reflect.Interface:
				if !v.IsNil() {
					walk(v.Elem())
				}
			case reflect.Struct:
				for i := 0; i < v.NumField(); i++ {
					if f := v.Type().Field(i); f.PkgPath == "" && !strings.HasPrefix(f.Name, "XXX_") {
						walk(v.Field(i))
					}
				}
			case reflect.Slice:
				if v.Type().Elem().Kind() != reflect.Uint8 {
					for i := 0; i < v.Len(); i++ {
						walk(v.Index(i))
					}
				}
			case reflect.String:
				if v.CanSet() && v.String() != "" {
					if len(byVal[v.String()]) == 1 {
						vals = append(vals, v.String())
					}
					byVal[v.String()] = append(byVal[v.String()], v)
				}
			}
		}
		walk(reflect.ValueOf(o))
		if len(vals) > 0 {
			sortStrings(vals)
			val := rapid.SampledFrom(vals).Draw(t, "renamed-value")
			suffix := rapid.SampledFrom([]string{"a", "\\u0031", "\"", "\\", ",", "\",\"", "&", "<"}).Draw(t, "rename-suffix")
			for _, v := range byVal[val] {
				v.SetString(val + suffix)
			}
			return o, "structural edit: a value occurring in several places renamed consistently"
		}
	}
	s := sites[rapid.IntRange(0, len(sites)-1).Draw(t, "site")]
	what := s.apply(t)
	// class of the site without indices, for the statistics
	cls := regexp.MustCompile(`\[\d+\]`).ReplaceAllString(s.path, "[]")
	return o, "structural edit: " + what + " at " + cls
}

// mutateMsg produces a near-collision partner of m by one operator.
func mutateMsg(t *rapid.T, m sdk.Msg, ti int) (sdk.Msg, string) {
	if rapid.IntRange(0, 2).Draw(t, "structural") == 0 {
		if o, op := structuralMutation(t, m, ti); o != nil {
			return o, op
		}
	}
	switch rapid.IntRange(0, 4).Draw(t, "operator") {
	case 0: // same fields under another type
		tj := rapid.IntRange(0, len(msgFactories)-1).Draw(t, "other-type")
		if rapid.Bool().Draw(t, "bare") {
			if o := transplant(m, msgFactories[tj]()); o != nil {
				return o, "same fields under another type, the rest empty"
			}
		}
		if o := transplant(m, minimalMsg(tj)); o != nil {
			return o, "same fields under another type"
		}
	case 1: // a fresh message of the same type (differs in some field, or is equal)
		return genValidMsg(t, ti), "independent message of the same type"
	case 2: // move a character between adjacent string fields (through the JSON form)
		js, err := (&jsonpb.Marshaler{EmitDefaults: true}).MarshalToString(m)
		if err == nil {
			var fields map[string]interface{}
			if json.Unmarshal([]byte(js), &fields) == nil {
				var names []string
				for k, v := range fields {
					if _, ok := v.(string); ok && !strings.Contains(strings.ToLower(k), "address") && k != "creator" && k != "sender" && k != "receiver" &&
						k != "updater" && k != "remover" && k != "burner" && k != "did" && k != "signature" && k != "key" && k != "value" && k != "verificationMethodId" {
						names = append(names, k)
					}
				}
				if len(names) >= 2 {
					sortStrings(names)
					i := rapid.IntRange(0, len(names)-2).Draw(t, "field")
					a, b := fields[names[i]].(string), fields[names[i+1]].(string)
					if len(a) > 0 {
						fields[names[i]], fields[names[i+1]] = a[:len(a)-1], a[len(a)-1:]+b
						bz, _ := json.Marshal(fields)
						o := msgFactories[ti]()
						if (&jsonpb.Unmarshaler{AllowUnknownFields: true}).Unmarshal(bytes.NewReader(bz), o) == nil {
							return o, "character moved between adjacent string fields"
						}
					}
				}
			}
		}
	case 4: // move a byte between the key and the value of an add-record
		if r, ok := m.(*aoltypes.MsgAddRecordRequest); ok && len(r.Key) > 0 {
			o := *r
			o.Key, o.Value = append([]byte{}, r.Key[:len(r.Key)-1]...), append([]byte{r.Key[len(r.Key)-1]}, r.Value...)
			return &o, "byte moved from record key to value"
		}
	case 3: // independent message of any type
		tj := rapid.IntRange(0, len(msgFactories)-1).Draw(t, "other-type")
		return genValidMsg(t, tj), "independent message"
	}
	return genValidMsg(t, ti), "independent message of the same type"
}

func sortStrings(s []string) {
	for i := 1; i < len(s); i++ {
		for j := i; j > 0 && s[j] < s[j-1]; j-- {
			s[j], s[j-1] = s[j-1], s[j]
		}
	}
}

func c14Fail(t interface {
	Fatalf(string, ...interface{})
}, msg string, p *c14pair) {
	failPure(t, "C14", "c14-pair", map[string]interface{}{"a": p.A, "b": p.B, "mode": p.Mode}, "%s", msg)
}

// TestC14Enum: all 14x14 ordered type pairs, maximally overlapping instances (every
// same-named field copied, optional fields empty), three sign modes -- enumerated completely.
func TestC14Enum(t *testing.T) {
	e := newC14Env()
	st := newPureStats("C14")
	defer st.flush()
	n := 0
	rapid.Check(t, func(rt *rapid.T) {
		// rapid only supplies the (deterministic, seed-independent) base instances; the pair
		// space itself is enumerated below.
		for i := range msgFactories {
			for j := range msgFactories {
				for variant := 0; variant < 3; variant++ {
					var a sdk.Msg
					switch variant {
					case 0:
						a = minimalMsg(i)
					default:
						a = genValidMsg(rt, i)
					}
					// start from the minimal valid instance of the other type and overlay every
					// same-named field of a
					b := transplant(a, minimalMsg(j))
					if b == nil {
						continue
					}
					if msg, p := e.checkPair(a, b, st); msg != "" {
						c14Fail(rt, msg, p)
					}
					// and the bare transplant: every field the other type does not share stays
					// empty (asserted, like every pair, only when both members pass validation)
					if b0 := transplant(a, msgFactories[j]()); b0 != nil && !sameMessage(b0, b) {
						if msg, p := e.checkPair(a, b0, st); msg != "" {
							c14Fail(rt, msg, p)
						}
						// the reverse direction too: b0's fields under a's type, the rest empty
						if a0 := transplant(b0, msgFactories[i]()); a0 != nil && !sameMessage(a0, a) {
							if msg, p := e.checkPair(a0, b0, st); msg != "" {
								c14Fail(rt, msg, p)
							}
						}
					}
					st.add(!sameMessage(a, b) && safeValidate(b) == nil && safeValidate(a) == nil, hash8(protoOf(a), protoOf(b), []byte(sdk.MsgTypeURL(b))), nil, "enumerated type pair")
					n++
				}
			}
		}
	})
	st.extra["type_pairs_enumerated"] = len(msgFactories) * len(msgFactories)
	st.extra["type_pair_enumeration_exhaustive"] = true
}

// minimalMsg is the instance of type ti with every optional field empty.
func minimalMsg(ti int) sdk.Msg {
	a := simnet.DefaultAccounts(1)[0].Bech
	did := world.DIDKeys()[0].DID()
	vm := &didtypes.VerificationMethod{Id: did + "#k", Type: es256k2019, Controller: did, PublicKeyBase58: base58.Encode(world.DIDKeys()[0].Pub)}
	doc := &didtypes.DIDDocument{Id: did, VerificationMethods: []*didtypes.VerificationMethod{vm},
		Authentications: []didtypes.VerificationRelationship{didtypes.NewVerificationRelationship(vm.Id)}}
	switch ti {
	case 0:
		return &aoltypes.MsgCreateTopicRequest{TopicName: "a", OwnerAddress: a}
	case 1:
		return &aoltypes.MsgAddWriterRequest{TopicName: "a", WriterAddress: a, OwnerAddress: a}
	case 2:
		return &aoltypes.MsgDeleteWriterRequest{TopicName: "a", WriterAddress: a, OwnerAddress: a}
	case 3:
		return &aoltypes.MsgAddRecordRequest{TopicName: "a", WriterAddress: a, OwnerAddress: a}
	case 4:
		return &didtypes.MsgCreateDIDRequest{Did: did, Document: doc, VerificationMethodId: vm.Id, Signature: []byte("s"), FromAddress: a}
	case 5:
		return &didtypes.MsgUpdateDIDRequest{Did: did, Document: doc, VerificationMethodId: vm.Id, Signature: []byte("s"), FromAddress: a}
	case 6:
		return &didtypes.MsgDeactivateDIDRequest{Did: did, VerificationMethodId: vm.Id, Signature: []byte("s"), FromAddress: a}
	case 7:
		return &pnfttypes.MsgCreateDenomRequest{Id: "a", Name: "a", Symbol: "a", Creator: a}
	case 8:
		return &pnfttypes.MsgUpdateDenomRequest{Id: "a", Updater: a}
	case 9:
		return &pnfttypes.MsgDeleteDenomRequest{Id: "a", Remover: a}
	case 10:
		return &pnfttypes.MsgTransferDenomRequest{Id: "a", Sender: a, Receiver: a}
	case 11:
		return &pnfttypes.MsgMintPNFTRequest{DenomId: "a", Id: "a", Name: "a", Creator: a}
	case 12:
		return &pnfttypes.MsgTransferPNFTRequest{DenomId: "a", Id: "a", Sender: a, Receiver: a}
	default:
		return &pnfttypes.MsgBurnPNFTRequest{DenomId: "a", Id: "a", Burner: a}
	}
}

// checkLists: two transactions that differ in one message of their (multi-message) lists
// never share sign bytes, and sign bytes handed out earlier are not changed by later calls.
func (e *c14env) checkLists(a, b, c sdk.Msg, st *pureStats) (string, *c14pair) {
	if sameMessage(a, b) || safeValidate(a) != nil || safeValidate(b) != nil || safeValidate(c) != nil {
		return "", nil
	}
	for _, md := range c14Modes {
		for _, order := range []int{0, 1} {
			la, lb := []sdk.Msg{a, c}, []sdk.Msg{b, c}
			if order == 1 {
				la, lb = []sdk.Msg{c, a}, []sdk.Msg{c, b}
			}
			sa, erra := e.signBytesN(e.txc, md.mode, la)
			sb, errb := e.signBytesN(e.txc, md.mode, lb)
			if erra != nil || errb != nil {
				continue
			}
			if bytes.Equal(sa, sb) {
				if k := knownCollision(md.name, a, b); k != "" {
					st.label("excluded: "+k, 1)
					continue
				}
				return fmt.Sprintf("mode %s: two 2-message transactions that differ in one message (%s vs %s, next to a %s) share their sign bytes", md.name, sdk.MsgTypeURL(a), sdk.MsgTypeURL(b), sdk.MsgTypeURL(c)), &c14pair{pairJSON(a), pairJSON(b), md.name}
			}
			st.label("2-message tx pair checked ("+md.name+")", 1)
		}
	}
	// the same pair as the inner message of an authz MsgExec (signed by the grantee): the
	// wrapping transaction must distinguish them too
	for _, md := range c14Modes {
		ea, eb := authz.NewMsgExec(e.acct.Addr, []sdk.Msg{a}), authz.NewMsgExec(e.acct.Addr, []sdk.Msg{b})
		sa, erra := e.signBytesN(e.txc, md.mode, []sdk.Msg{&ea})
		sb, errb := e.signBytesN(e.txc, md.mode, []sdk.Msg{&eb})
		if erra != nil || errb != nil {
			st.label("mode unusable for the wrapped message ("+md.name+")", 1)
			continue
		}
		if bytes.Equal(sa, sb) {
			if k := knownCollision(md.name, a, b); k != "" {
				st.label("excluded: "+k, 1)
				continue
			}
			return fmt.Sprintf("mode %s: two authz MsgExec transactions whose inner messages differ (%s vs %s) share their sign bytes %q", md.name, sdk.MsgTypeURL(a), sdk.MsgTypeURL(b), trunc(sa, 300)), &c14pair{pairJSON(a), pairJSON(b), md.name + "/exec"}
		}
		st.label("exec-wrapped pair checked ("+md.name+")", 1)
	}
	// bytes returned by a message's own GetSignBytes stay what they were
	type legacy interface{ GetSignBytes() []byte }
	if la, ok := a.(legacy); ok {
		if lc, ok := c.(legacy); ok {
			var x, keep []byte
			if callNoPanic(func() { x = la.GetSignBytes(); keep = append([]byte{}, x...); _ = lc.GetSignBytes() }) == "" && !bytes.Equal(x, keep) {
				return fmt.Sprintf("the sign bytes returned for a %s changed after sign bytes of a %s were computed", sdk.MsgTypeURL(a), sdk.MsgTypeURL(c)), &c14pair{pairJSON(a), pairJSON(c), "retained"}
			}
		}
	}
	return "", nil
}

// TestC14: generated near-collision pairs.
func TestC14(t *testing.T) {
	e := newC14Env()
	st := newPureStats("C14")
	defer st.flush()
	rapid.Check(t, func(rt *rapid.T) {
		ti := rapid.IntRange(0, len(msgFactories)-1).Draw(rt, "type")
		a := genValidMsg(rt, ti)
		b, op := mutateMsg(rt, a, ti)
		if msg, p := e.checkPair(a, b, st); msg != "" {
			c14Fail(rt, msg, p)
		}
		// the same pair inside two-message transactions, next to a third message
		cmsg := genValidMsg(rt, rapid.IntRange(0, len(msgFactories)-1).Draw(rt, "third-type"))
		if rapid.Bool().Draw(rt, "third-same-type") {
			cmsg = genValidMsg(rt, ti)
		}
		if msg, p := e.checkLists(a, b, cmsg, st); msg != "" {
			c14Fail(rt, msg, p)
		}
		nt := !sameMessage(a, b) && safeValidate(a) == nil && safeValidate(b) == nil
		st.add(nt, hash8(protoOf(a), protoOf(b), []byte(sdk.MsgTypeURL(a)+sdk.MsgTypeURL(b))), map[string]interface{}{"a": fmt.Sprintf("%T%v", a, a), "b": fmt.Sprintf("%T%v", b, b), "operator": op}, "operator: "+op)
	})
}

func init() {
	otherReplays["c14-pair"] = func(t *testing.T, raw []byte) {
		var doc struct {
			Input struct {
				A, B MsgJSONPair
				Mode string
			} `json:"input"`
		}
		if err := json.Unmarshal(raw, &doc); err != nil {
			t.Fatal(err)
		}
		e := newC14Env()
		reg := app.MakeEncodingConfig().InterfaceRegistry
		dec := func(p MsgJSONPair) sdk.Msg {
			bz, _ := base64.StdEncoding.DecodeString(p.Value)
			var m sdk.Msg
			if err := reg.UnpackAny(&codectypes.Any{TypeUrl: p.TypeURL, Value: bz}, &m); err != nil {
				t.Fatal(err)
			}
			return m
		}
		st := newPureStats("C14")
		if msg, _ := e.checkPair(dec(doc.Input.A), dec(doc.Input.B), st); msg != "" {
			fmt.Printf("REPLAY-VIOLATION property=C14 %s\n", msg)
			t.Fatalf("violation reproduced: %s", msg)
		}
	}
}
