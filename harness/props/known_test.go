package props

import (
	"fmt"
	"strings"
	"testing"

	"github.com/btcsuite/btcutil/base58"
	dbm "github.com/cometbft/cometbft-db"
	abci "github.com/cometbft/cometbft/abci/types"
	sdk "github.com/cosmos/cosmos-sdk/types"
	"github.com/cosmos/cosmos-sdk/types/query"
	"github.com/cosmos/cosmos-sdk/types/tx/signing"
	authsigning "github.com/cosmos/cosmos-sdk/x/auth/signing"
	aoltypes "github.com/medibloc/panacea-core/v2/x/aol/types"
	didtypes "github.com/medibloc/panacea-core/v2/x/did/types"
	pnfttypes "github.com/medibloc/panacea-core/v2/x/pnft/types"

	"verifharness/simnet"
	"verifharness/world"
)

// Each open entry of known_findings.json has a deterministic replay here. While the entry is
// open and the defect still reproduces the replay prints the KNOWN-FINDING line; it never
// fails the check. Fixed entries have no replay: the generators produce their trigger again.

func knownLine(f Finding) {
	fmt.Printf("KNOWN-FINDING: property=%s %s [%s]\n", f.Property, f.What, f.Key)
}

func findingByKey(key string) (Finding, bool) {
	for _, f := range Findings() {
		if f.Key == key && f.Status == "open" {
			return f, true
		}
	}
	return Finding{}, false
}

// TestKnownC14 : a signature made for a create-DID transaction validates the update-DID
// transaction with the same fields (legacy amino JSON).
func TestKnownC14(t *testing.T) {
	f, ok := findingByKey("C14-amino-did-create-update")
	if !ok {
		t.Skip("not an open finding")
	}
	c, err := simnet.NewChain(dbm.NewMemDB(), "", simnet.GenesisOptions{Accounts: simnet.DefaultAccounts(2)})
	if err != nil {
		t.Fatal(err)
	}
	keys := world.DIDKeys()
	did := keys[0].DID()
	vm := &didtypes.VerificationMethod{Id: did + "#k", Type: es256k2019, Controller: did, PublicKeyBase58: base58.Encode(keys[0].Pub)}
	doc := &didtypes.DIDDocument{Id: did, VerificationMethods: []*didtypes.VerificationMethod{vm},
		Authentications: []didtypes.VerificationRelationship{didtypes.NewVerificationRelationship(vm.Id)}}
	bz, _ := doc.Marshal()
	sig, _ := keys[0].Secp.Sign(world.DataWithSeqBytes(bz, 0))
	from := c.Accounts[0]
	create := &didtypes.MsgCreateDIDRequest{Did: did, Document: doc, VerificationMethodId: vm.Id, Signature: sig, FromAddress: from.Bech}
	update := &didtypes.MsgUpdateDIDRequest{Did: did, Document: doc, VerificationMethodId: vm.Id, Signature: sig, FromAddress: from.Bech}
	if _, err := c.BeginBlock(5e9); err != nil {
		t.Fatal(err)
	}
	txc := c.App.TxConfig()
	mode := signing.SignMode_SIGN_MODE_LEGACY_AMINO_JSON
	num, seq, _ := c.AccountInfo(c.Ctx(), from.Addr)
	build := func(m sdk.Msg, sigBz []byte) ([]byte, []byte) {
		b := txc.NewTxBuilder()
		_ = b.SetMsgs(m)
		b.SetGasLimit(simnet.DefaultGas)
		s := signing.SignatureV2{PubKey: from.Priv.PubKey(), Data: &signing.SingleSignatureData{SignMode: mode, Signature: sigBz}, Sequence: seq}
		_ = b.SetSignatures(s)
		sb, err := txc.SignModeHandler().GetSignBytes(mode, authsigning.SignerData{ChainID: simnet.ChainID, AccountNumber: num, Sequence: seq, Address: from.Bech, PubKey: from.Priv.PubKey()}, b.GetTx())
		if err != nil {
			t.Fatal(err)
		}
		raw, err := txc.TxEncoder()(b.GetTx())
		if err != nil {
			t.Fatal(err)
		}
		return raw, sb
	}
	_, sbCreate := build(create, nil)
	accountSig, _ := from.Priv.Sign(sbCreate) // the account signs the CREATE transaction only
	rawUpdate, _ := build(update, accountSig) // ... and the signature is attached to the UPDATE
	res := c.App.DeliverTx(abci.RequestDeliverTx{Tx: rawUpdate})
	_, seq2, _ := c.AccountInfo(c.Ctx(), from.Addr)
	if seq2 == seq+1 && !strings.Contains(res.Log, "signature verification failed") {
		knownLine(f)
		return
	}
	fmt.Printf("NOTE: open finding %s did not reproduce (code %d %s)\n", f.Key, res.Code, res.Log)
}

// TestKnownC08 : an identifier with invalid UTF-8 is accepted by a transaction and changed by
// the JSON genesis export.
func TestKnownC08(t *testing.T) {
	f, ok := findingByKey("C08-invalid-utf8-export")
	if !ok {
		t.Skip("not an open finding")
	}
	w, err := world.New(world.Options{Prop: "none"})
	if err != nil {
		t.Fatal(err)
	}
	id := "a\xffb"
	var m sdk.Msg = &pnfttypes.MsgCreateDenomRequest{Id: id, Name: "n", Symbol: "S", Creator: w.Accts[0].Bech}
	if err := w.Apply(world.Step{Kind: "tx", Tx: &world.TxStep{Msgs: []world.MsgJSON{world.EncodeMsg(m)}, Signers: []simnet.SignerSpec{{Acct: 0}}}}); err != nil {
		t.Fatal(err)
	}
	if !w.LastTx.OK() {
		fmt.Printf("NOTE: open finding %s did not reproduce: the transaction is refused (%s)\n", f.Key, w.LastTx.Res.Log)
		return
	}
	_ = w.Apply(world.Step{Kind: "commit", DT: 5})
	st, err := w.C.Export()
	if err != nil {
		t.Fatal(err)
	}
	nc, err := simnet.NewChainFromGenesis(st, w.Accts)
	if err != nil {
		knownLine(f)
		return
	}
	q1 := w.C.Query("/panacea.pnft.v2.Query/Denom", &pnfttypes.QueryDenomRequest{Id: id}, 0)
	q2 := nc.Query("/panacea.pnft.v2.Query/Denom", &pnfttypes.QueryDenomRequest{Id: id}, 0)
	if q1.Code == 0 && q2.Code != 0 {
		knownLine(f)
		return
	}
	fmt.Printf("NOTE: open finding %s did not reproduce\n", f.Key)
}

// TestKnownC17 : a listing query in reverse direction whose continuation key is the last key
// makes the SDK's paginator call Key() on an exhausted iterator.
func TestKnownC17(t *testing.T) {
	f, ok := findingByKey("C17-paginate-reverse-key")
	if !ok {
		t.Skip("not an open finding")
	}
	w, err := world.New(world.Options{Prop: "none"})
	if err != nil {
		t.Fatal(err)
	}
	var m sdk.Msg = &aoltypes.MsgCreateTopicRequest{TopicName: "a", OwnerAddress: w.Accts[0].Bech}
	_ = w.Apply(world.Step{Kind: "tx", Tx: &world.TxStep{Msgs: []world.MsgJSON{world.EncodeMsg(m)}, Signers: []simnet.SignerSpec{{Acct: 0}}}})
	_ = w.Apply(world.Step{Kind: "commit", DT: 5})
	q := w.C.Query("/panacea.aol.v2.Query/Topics", &aoltypes.QueryTopicsRequest{OwnerAddress: w.Accts[0].Bech,
		Pagination: &query.PageRequest{Key: []byte{1, 'a'}, Reverse: true}}, 0)
	if simnet.IsPanic(q.Codespace, q.Code) {
		knownLine(f)
		return
	}
	fmt.Printf("NOTE: open finding %s did not reproduce (code %d %s)\n", f.Key, q.Code, q.Log)
}

// TestKnownC11 : the proof of an update to the id-less (deactivating) document names no DID;
// re-sent under another DID that lists the same key at the same sequence it deactivates that DID.
func TestKnownC11(t *testing.T) {
	f, ok := findingByKey("C11-unbound-empty-update-proof")
	if !ok {
		t.Skip("not an open finding")
	}
	w, err := world.New(world.Options{Prop: "none"})
	if err != nil {
		t.Fatal(err)
	}
	keys := world.DIDKeys()
	mkDoc := func(did string) *didtypes.DIDDocument {
		vm := &didtypes.VerificationMethod{Id: did + "#k", Type: es256k2019, Controller: did, PublicKeyBase58: base58.Encode(keys[0].Pub)}
		return &didtypes.DIDDocument{Id: did, VerificationMethods: []*didtypes.VerificationMethod{vm},
			Authentications: []didtypes.VerificationRelationship{didtypes.NewVerificationRelationship(vm.Id)}}
	}
	sign := func(doc *didtypes.DIDDocument, seq uint64) []byte {
		bz, _ := doc.Marshal()
		sig, _ := keys[0].Secp.Sign(world.DataWithSeqBytes(bz, seq))
		return sig
	}
	send := func(m sdk.Msg) bool {
		_ = w.Apply(world.Step{Kind: "tx", Tx: &world.TxStep{Msgs: []world.MsgJSON{world.EncodeMsg(m)}, Signers: []simnet.SignerSpec{{Acct: 0}}}})
		return w.LastTx.OK()
	}
	a, b := keys[0].DID(), keys[1].DID() // two identifiers, both controlled by key 0
	from := w.Accts[0].Bech
	for _, d := range []string{a, b} {
		doc := mkDoc(d)
		if !send(&didtypes.MsgCreateDIDRequest{Did: d, Document: doc, VerificationMethodId: d + "#k", Signature: sign(doc, 0), FromAddress: from}) {
			fmt.Printf("NOTE: open finding %s did not reproduce: create refused (%s)\n", f.Key, w.LastTx.Res.Log)
			return
		}
	}
	empty := &didtypes.DIDDocument{}
	proofForA := sign(empty, 0) // made by the holder in order to deactivate A
	if !send(&didtypes.MsgUpdateDIDRequest{Did: a, Document: empty, VerificationMethodId: a + "#k", Signature: proofForA, FromAddress: from}) {
		fmt.Printf("NOTE: open finding %s did not reproduce: update to the empty document refused (%s)\n", f.Key, w.LastTx.Res.Log)
		return
	}
	// anybody re-sends it under B
	if send(&didtypes.MsgUpdateDIDRequest{Did: b, Document: empty, VerificationMethodId: b + "#k", Signature: proofForA, FromAddress: from}) {
		knownLine(f)
		return
	}
	fmt.Printf("NOTE: open finding %s did not reproduce (%s)\n", f.Key, w.LastTx.Res.Log)
}

// TestKnownC14UTF8 : legacy amino JSON renders every invalid UTF-8 sequence as U+FFFD, so two
// create-topic messages whose descriptions differ only in such a byte share their sign bytes.
func TestKnownC14UTF8(t *testing.T) {
	f, ok := findingByKey("C14-amino-invalid-utf8")
	if !ok {
		t.Skip("not an open finding")
	}
	e := newC14Env()
	owner := simnet.DefaultAccounts(1)[0].Bech
	a := &aoltypes.MsgCreateTopicRequest{TopicName: "a", Description: "a\xffb", OwnerAddress: owner}
	b := &aoltypes.MsgCreateTopicRequest{TopicName: "a", Description: "a\xfeb", OwnerAddress: owner}
	if a.ValidateBasic() != nil || b.ValidateBasic() != nil {
		fmt.Printf("NOTE: open finding %s did not reproduce: stateless validation refuses the descriptions\n", f.Key)
		return
	}
	sa, erra := e.signBytes(e.txc, signing.SignMode_SIGN_MODE_LEGACY_AMINO_JSON, a)
	sb, errb := e.signBytes(e.txc, signing.SignMode_SIGN_MODE_LEGACY_AMINO_JSON, b)
	if erra == nil && errb == nil && string(sa) == string(sb) {
		knownLine(f)
		return
	}
	fmt.Printf("NOTE: open finding %s did not reproduce\n", f.Key)
}
