package props

import (
	"crypto/sha256"
	"encoding/base64"
	"encoding/json"

	"fmt"
	"github.com/cosmos/cosmos-sdk/codec"
	"strings"

	"github.com/btcsuite/btcutil/base58"
	sdk "github.com/cosmos/cosmos-sdk/types"
	didtypes "github.com/medibloc/panacea-core/v2/x/did/types"

	"verifharness/world"
)

const (
	es256k2019 = "EcdsaSecp256k1VerificationKey2019"
	es256k2018 = "Secp256k1VerificationKey2018"
	ed2018     = "Ed25519VerificationKey2018"
	ctxV1      = "https://www.w3.org/ns/did/v1"
)

func vmID(did string, ki int, dedicated bool) string {
	if dedicated {
		return fmt.Sprintf("%s#d%d", did, ki)
	}
	return fmt.Sprintf("%s#k%d", did, ki)
}

// genDoc builds a structurally valid document about `did` whose authentication lists
// exactly the keys in auth (by reference or as dedicated methods); other keys may appear as
// plain verification methods or under other relationships only.
func (g *G) genDoc(did string, auth []int) *didtypes.DIDDocument {
	keys := g.W.Keys
	doc := &didtypes.DIDDocument{Id: did}
	switch g.weighted("ctx", "one", 6, "two", 2, "none", 2, "long", 1) {
	case "long":
		// entries longer than 127 bytes need a two-byte length prefix on the wire
		doc.Contexts = &didtypes.JSONStringOrStrings{ctxV1, "https://example.org/" + strings.Repeat("c", pick(g, "ctx-len", []int{107, 108, 300, 20000}))}
	case "one":
		doc.Contexts = &didtypes.JSONStringOrStrings{ctxV1}
	case "two":
		doc.Contexts = &didtypes.JSONStringOrStrings{ctxV1, "https://w3id.org/security/v1"}
	}
	if g.chance("controller", 25) {
		doc.Controller = &didtypes.JSONStringOrStrings{did}
	}
	typ := func(ki int) string {
		if !keys[ki].IsSecp() {
			return ed2018
		}
		return g.weighted(fmt.Sprintf("type%d", ki), es256k2019, 14, es256k2018, 4, ed2018, 1, "FooKey2030", 1)
	}
	// the controller of a verification method is free-form: usually the DID itself, sometimes
	// another (registered or unregistered) identifier
	ctrl := did
	if g.chance("foreign-method-controller", g.bias("foreign-controller", 5)) {
		ctrl = keys[g.intn("controller-of", 6)].DID()
	}
	mkVM := func(ki int, ded bool) *didtypes.VerificationMethod {
		return &didtypes.VerificationMethod{Id: vmID(did, ki, ded), Type: typ(ki), Controller: ctrl, PublicKeyBase58: base58.Encode(keys[ki].Pub)}
	}
	inAuth := map[int]bool{}
	for _, ki := range auth {
		inAuth[ki] = true
		if g.chance(fmt.Sprintf("dedicated%d", ki), 25) {
			vm := mkVM(ki, true)
			doc.Authentications = append(doc.Authentications, didtypes.NewVerificationRelationshipDedicated(*vm))
			if g.chance(fmt.Sprintf("shadow%d", ki), 35) {
				// a top-level method that carries the SAME id as the embedded authentication
				// method but another key (method ids need not be unique): that key is listed
				// as a verification method only, never under authentication
				kj := (ki + 1 + g.intn("shadow-key", 4)) % 6
				if !containsInt(auth, kj) {
					sh := mkVM(kj, true)
					sh.Id = vm.Id
					doc.VerificationMethods = append(doc.VerificationMethods, sh)
					if g.chance("shadow-assert", 50) {
						doc.AssertionMethods = append(doc.AssertionMethods, didtypes.NewVerificationRelationship(vm.Id))
					}
				}
			}
		} else {
			doc.VerificationMethods = append(doc.VerificationMethods, mkVM(ki, false))
			doc.Authentications = append(doc.Authentications, didtypes.NewVerificationRelationship(vmID(did, ki, false)))
		}
	}
	// keys present only as verification methods / under other relationships
	for ki := range keys {
		if inAuth[ki] || !g.chance(fmt.Sprintf("extra%d", ki), 18) {
			continue
		}
		doc.VerificationMethods = append(doc.VerificationMethods, mkVM(ki, false))
		switch g.weighted(fmt.Sprintf("rel%d", ki), "none", 3, "assert", 3, "agree", 1, "capinv", 1, "capdel", 1) {
		case "assert":
			doc.AssertionMethods = append(doc.AssertionMethods, didtypes.NewVerificationRelationship(vmID(did, ki, false)))
		case "agree":
			doc.KeyAgreements = append(doc.KeyAgreements, didtypes.NewVerificationRelationship(vmID(did, ki, false)))
		case "capinv":
			doc.CapabilityInvocations = append(doc.CapabilityInvocations, didtypes.NewVerificationRelationship(vmID(did, ki, false)))
		case "capdel":
			doc.CapabilityDelegations = append(doc.CapabilityDelegations, didtypes.NewVerificationRelationship(vmID(did, ki, false)))
		}
	}
	if len(doc.VerificationMethods) == 0 {
		// the validator demands a non-nil verificationMethod list
		ki := auth[0]
		doc.VerificationMethods = append(doc.VerificationMethods, &didtypes.VerificationMethod{Id: did + "#spare", Type: typ(ki), Controller: did, PublicKeyBase58: base58.Encode(keys[ki].Pub)})
	}
	if g.chance("service", 20) {
		doc.Services = []*didtypes.Service{{Id: "svc1", Type: "LinkedDomains", ServiceEndpoint: "https://example.org"}}
	}
	if g.chance("many-methods", g.bias("big-doc", 4)) {
		// a long verificationMethod list; in half of the cases one entry (often the last) is
		// malformed, which stateless validation has to notice wherever it sits
		n := 8 + g.intn("extra-methods", 24)
		bad := -1
		if !g.wellFormedOnly && g.chance("malformed-method", 50) {
			bad = n - 1 - g.intn("malformed-from-end", 4)
		}
		for i := 0; i < n; i++ {
			ki := g.intn("extra-method-key", 6)
			vm := &didtypes.VerificationMethod{Id: fmt.Sprintf("%s#x%d", did, i), Type: es256k2019, Controller: did, PublicKeyBase58: base58.Encode(keys[ki].Pub)}
			if i == bad {
				switch g.weighted("malformation", "key", 2, "type", 1, "id", 1) {
				case "key":
					vm.PublicKeyBase58 = "0OIl"
				case "type":
					vm.Type = ""
				default:
					vm.Id = did + "#"
				}
			}
			doc.VerificationMethods = append(doc.VerificationMethods, vm)
		}
	}
	return doc
}

// authKeysOf lists (pool key, method id) pairs the document lists under authentication with
// a secp256k1 type; others lists pool keys present elsewhere in the document only.
func (g *G) authKeysOf(doc *didtypes.DIDDocument) (auth [][2]interface{}, others [][2]interface{}) {
	if doc == nil {
		return
	}
	find := func(pub string) int {
		for i, k := range g.W.Keys {
			if base58.Encode(k.Pub) == pub {
				return i
			}
		}
		return -1
	}
	byID := map[string]*didtypes.VerificationMethod{}
	for _, vm := range doc.VerificationMethods {
		byID[vm.Id] = vm
	}
	type pair struct {
		ki int
		id string
	}
	listed := map[pair]bool{}
	for _, rel := range doc.Authentications {
		vm := rel.GetVerificationMethod()
		if vm == nil {
			vm = byID[rel.GetVerificationMethodId()]
		}
		if vm == nil {
			continue
		}
		if ki := find(vm.PublicKeyBase58); ki >= 0 {
			listed[pair{ki, vm.Id}] = true
			auth = append(auth, [2]interface{}{ki, vm.Id})
		}
	}
	for _, vm := range doc.VerificationMethods {
		if ki := find(vm.PublicKeyBase58); ki >= 0 && !listed[pair{ki, vm.Id}] {
			others = append(others, [2]interface{}{ki, vm.Id})
		}
	}
	return
}

func containsInt(xs []int, x int) bool {
	for _, v := range xs {
		if v == x {
			return true
		}
	}
	return false
}

func (g *G) someAuthSet() []int {
	n := 1 + g.intn("nauth", 2)
	var out []int
	seen := map[int]bool{}
	for len(out) < n {
		ki := g.intn("authkey", 6)
		if g.chance("ed-auth", 6) {
			ki = 6 + g.intn("edkey", 2)
		}
		if !seen[ki] {
			seen[ki] = true
			out = append(out, ki)
		}
	}
	return out
}

func docBytes(doc *didtypes.DIDDocument) []byte {
	if doc == nil {
		return nil
	}
	bz, err := doc.Marshal()
	if err != nil {
		panic(err)
	}
	return bz
}

// genDidMsg draws one DID message with independently chosen proof parts.
func (g *G) genDidMsg() (sdk.Msg, string) {
	w := g.W
	m := w.DID
	from := g.bech(g.acct("relayer"))
	kind := g.weighted("did-kind", "create", g.bias("did-create", 30), "update", g.bias("did-update", 40),
		"deactivate", g.bias("did-deactivate", 12), "replay", g.bias("did-replay", 10))
	if len(m.Entries) == 0 && g.chance("bootstrap", 85) {
		kind = "create"
	}
	if kind == "replay" {
		if len(w.AcceptedDID) == 0 {
			kind = "update"
		} else {
			mj := pick(g, "replayed", w.AcceptedDID)
			msg, err := w.DecodeMsg(mj)
			if err != nil {
				panic(err)
			}
			if g.chance("retarget", g.bias("did-retarget", 30)) {
				// the observed message is re-sent under ANOTHER identifier that lists the same
				// key, with the method id re-pointed accordingly
				if m2, ok := g.retarget(msg); ok {
					return m2, "did-replay-under-another-did"
				}
			}
			if g.chance("other-relayer", 50) {
				switch x := msg.(type) {
				case *didtypes.MsgCreateDIDRequest:
					x.FromAddress = from
				case *didtypes.MsgUpdateDIDRequest:
					x.FromAddress = from
				case *didtypes.MsgDeactivateDIDRequest:
					x.FromAddress = from
				}
			}
			return msg, "did-replay"
		}
	}
	var active, tomb []string
	for _, d := range sortedKeys(m.Entries) {
		if m.Entries[d].Tombstone {
			tomb = append(tomb, d)
		} else {
			active = append(active, d)
		}
	}
	// bursts: several consecutive failing proofs for ONE identifier (somebody guessing)
	if g.burstLeft == 0 && len(active) > 0 && g.chance("start-burst", g.bias("did-burst", 3)) {
		g.burstDID, g.burstLeft = pick(g, "burst-did", active), 5+g.intn("burst-len", 3)
	}
	if g.burstLeft > 0 {
		if e := m.Entries[g.burstDID]; e != nil && !e.Tombstone {
			g.burstLeft--
			auth, _ := g.authKeysOf(e.Doc)
			var cur []int
			for _, a := range auth {
				cur = append(cur, a[0].(int))
			}
			authSet := append([]int{}, cur...)
			if len(authSet) == 0 {
				authSet = g.someAuthSet()
			}
			doc := g.genDoc(g.burstDID, authSet)
			g.proofIntent = g.burstDID
			// a proof by the right key over the wrong sequence: the signature check itself fails
			vmid, sig, how := "", []byte(nil), "wrong-sequence"
			if len(auth) > 0 {
				a := auth[g.intn("burst-auth", len(auth))]
				payload := world.DataWithSeqBytes(docBytes(doc), e.Seq+1+uint64(g.intn("burst-seq", 3)))
				g.proofs = append(g.proofs, world.ProofReg{Key: a[0].(int), Payload: base64.StdEncoding.EncodeToString(payload), DID: g.burstDID})
				vmid, sig = a[1].(string), w.DID.SignProofFor(w.Keys, a[0].(int), payload, g.burstDID)
			}
			return &didtypes.MsgUpdateDIDRequest{Did: g.burstDID, Document: doc, VerificationMethodId: vmid, Signature: sig, FromAddress: from}, "did-update(burst) proof=" + how
		}
		g.burstLeft = 0
	}
	pool := []string{}
	for _, k := range w.Keys {
		pool = append(pool, k.DID())
	}
	if kind == "create" {
		ki := g.intn("did-key", 6)
		did := w.Keys[ki].DID()
		if len(tomb) > 0 && g.chance("create-on-tomb", g.bias("aim-tomb", 15)) {
			did = pick(g, "tomb", tomb)
		} else if len(active) > 0 && g.chance("create-on-existing", 12) {
			did = pick(g, "active", active)
		}
		if all := append(append([]string{}, active...), tomb...); len(all) > 0 && g.chance("did-related-to-existing", g.bias("did-related", 8)) {
			// an identifier of its own that is a strict prefix or an extension of a registered one
			// (32 to 44 base58 characters are legal)
			base := strings.TrimPrefix(pick(g, "related-to", all), "did:panacea:")
			switch {
			case len(base) < 44 && g.chance("extend", 60):
				did = "did:panacea:" + base + strings.Repeat("z", 1+g.intn("ext", 44-len(base)))
			case len(base) > 32:
				did = "did:panacea:" + base[:32+g.intn("cut", len(base)-32)]
			}
		}
		if g.chance("did-with-extra-segment", g.bias("did-segment", 4)) {
			// spellings next to the grammar: an extra colon-separated segment before the
			// identifier string (network ids are common in other DID methods)
			did = "did:panacea:" + pick(g, "segment", []string{"mainnet", "testnet", "1", "panacea"}) + ":" + strings.TrimPrefix(did, "did:panacea:")
		}
		auth := g.someAuthSet()
		if g.chance("own-key-in-auth", 80) {
			has := false
			for _, a := range auth {
				has = has || a == ki
			}
			if !has {
				auth[0] = ki
			}
		}
		doc := g.genDoc(did, auth)
		target := did
		note := "did-create"
		if g.chance("mismatch", g.bias("did-mismatch", 4)) {
			// the DID field is chosen independently of the document (and of the signed payload)
			target = g.otherDID(did, pool)
			if target != did {
				note = "did-create-mismatch"
			}
		}
		g.proofIntent = target
		content := docBytes(doc)
		if target != did && g.chance("proof-over-readdressed-copy", 50) {
			// the signer signed the same document with its id replaced by the DID field
			content = docBytes(readdressed(doc, target))
			note += "(proof over the re-addressed copy)"
		}
		vmid, sig, how := g.proof(doc, auth, content, 0, nil)
		return &didtypes.MsgCreateDIDRequest{Did: target, Document: doc, VerificationMethodId: vmid, Signature: sig, FromAddress: from}, note + " proof=" + how
	}
	// update / deactivate: choose a target
	var did string
	switch {
	case len(tomb) > 0 && g.chance("aim-tomb", g.bias("aim-tomb", 15)):
		did = pick(g, "tomb", tomb)
	case len(active) > 0 && g.chance("aim-active", 88):
		did = pick(g, "active", active)
	default:
		did = pick(g, "any-did", pool)
	}
	e := m.Entries[did]
	var stored *didtypes.DIDDocument
	seq := uint64(0)
	if e != nil {
		stored, seq = e.Doc, e.Seq
	}
	curAuth, _ := g.authKeysOf(stored)
	var cur []int
	for _, a := range curAuth {
		cur = append(cur, a[0].(int))
	}
	atLimit := e != nil && e.Seq == ^uint64(0)
	if atLimit && kind == "deactivate" {
		// a deactivation at sequence 2^64-1 would store the tombstone at the wrapped sequence 0,
		// the encoding of "never existed": unreachable by transactions, outside the domain
		kind = "update"
	}
	if kind == "deactivate" {
		content := docBytes(&didtypes.DIDDocument{Id: did})
		g.proofIntent = did
		// a wallet that signs the document that will be stored (the tombstone) instead of {id}
		g.forceEmptyDocProof = g.chance("tombstone-proof", g.bias("tombstone-proof", 5))
		vmid, sig, how := g.proof(stored, cur, content, seq, stored)
		return &didtypes.MsgDeactivateDIDRequest{Did: did, VerificationMethodId: vmid, Signature: sig, FromAddress: from}, "did-deactivate proof=" + how
	}
	newAuth := cur
	if len(newAuth) == 0 || g.chance("rotate", 55) {
		newAuth = g.someAuthSet()
	}
	docDID := did
	note := "did-update"
	if g.chance("mismatch", g.bias("did-mismatch", 4)) {
		docDID = g.otherDID(did, pool)
		if stored != nil && g.chance("mismatch-to-controller", 50) {
			// ... preferably the identifier the stored document names as controller of its keys
			for _, vm := range stored.VerificationMethods {
				if vm.Controller != did && vm.Controller != "" {
					docDID = vm.Controller
				}
			}
			for _, rel := range stored.Authentications {
				if vm := rel.GetVerificationMethod(); vm != nil && vm.Controller != did && vm.Controller != "" {
					docDID = vm.Controller
				}
			}
		}
		if docDID != did {
			note = "did-update-mismatch"
		}
	}
	var doc *didtypes.DIDDocument
	if !atLimit && g.chance("update-to-empty", g.bias("update-to-empty", 5)) {
		doc = &didtypes.DIDDocument{}
		note = "did-update-to-empty"
		if g.chance("blank-id-with-content", 50) {
			// the deactivated form is "a document without id": it may still carry other fields
			doc = g.genDoc(did, newAuth)
			doc.Id = ""
			note = "did-update-to-blank-id-document"
		}
	} else if stored != nil && stored.Id != "" && g.chance("update-unchanged", 8) {
		// the holder re-submits the document that is already stored, freshly proved
		doc = &didtypes.DIDDocument{}
		if err := doc.Unmarshal(docBytes(stored)); err != nil {
			panic(err)
		}
		note = "did-update-unchanged-document"
	} else if g.chance("bare-document", g.bias("did-bare-doc", 4)) {
		// a document that carries (almost) nothing but an id: no verificationMethod list
		doc = &didtypes.DIDDocument{Id: docDID}
		if g.chance("bare-with-embedded-auth", 50) {
			full := g.genDoc(docDID, newAuth)
			for _, rel := range full.Authentications {
				if rel.GetVerificationMethod() != nil {
					doc.Authentications = append(doc.Authentications, rel)
				}
			}
			doc.Contexts = full.Contexts
		}
		note += "(bare document)"
	} else {
		doc = g.genDoc(docDID, newAuth)
	}
	g.proofIntent = did
	content := docBytes(doc)
	if doc != nil && doc.Id != "" && doc.Id != did && g.chance("proof-over-readdressed-copy", 50) {
		content = docBytes(readdressed(doc, did))
		note += "(proof over the re-addressed copy)"
	}
	vmid, sig, how := g.proof(stored, cur, content, seq, stored)
	return &didtypes.MsgUpdateDIDRequest{Did: did, Document: doc, VerificationMethodId: vmid, Signature: sig, FromAddress: from}, note + " proof=" + how
}

// proof draws (method id, signature). against is the document whose authentication must
// list the key (the submitted one for create, the stored one otherwise); authKeys are the
// pool keys it lists there. content/seq are what a correct proof covers.
func (g *G) proof(against *didtypes.DIDDocument, authKeys []int, content []byte, seq uint64, prev *didtypes.DIDDocument) (string, []byte, string) {
	w := g.W
	auth, others := g.authKeysOf(against)
	did := ""
	if against != nil {
		did = against.Id
	}
	sign := func(ki int, c []byte, s uint64) []byte {
		payload := world.DataWithSeqBytes(c, s)
		g.proofs = append(g.proofs, world.ProofReg{Key: ki, Payload: base64.StdEncoding.EncodeToString(payload), DID: g.proofIntent})
		return w.DID.SignProofFor(w.Keys, ki, payload, g.proofIntent)
	}
	right := func() (string, []byte, bool) {
		if len(auth) == 0 {
			return "", nil, false
		}
		a := pick(g, "auth-entry", auth)
		return a[1].(string), sign(a[0].(int), content, seq), true
	}
	if g.forceEmptyDocProof {
		g.forceEmptyDocProof = false
		if len(auth) > 0 {
			a := pick(g, "auth-entry", auth)
			return a[1].(string), sign(a[0].(int), docBytes(&didtypes.DIDDocument{}), seq), "proof-over-the-empty-document"
		}
	}
	if g.chance("right-proof", g.bias("right-proof", 62)) {
		if id, sig, ok := right(); ok {
			return id, sig, "right"
		}
	}
	switch g.weighted("wrong-proof", "vm-only", 3, "not-listed", 3, "wrong-seq", 4, "prev-content", 2, "other-content", 2, "garbage", 2, "empty", 1, "wrong-id", 2, "foreign-did", 3, "empty-id", g.bias("proof-empty-id", 2), "empty-doc-content", 2) {
	case "empty-doc-content":
		// a proof over the id-less (tombstone) document: it names no identifier at all
		if len(auth) > 0 {
			a := pick(g, "auth-entry", auth)
			return a[1].(string), sign(a[0].(int), docBytes(&didtypes.DIDDocument{}), seq), "proof-over-the-empty-document"
		}
	case "empty-id":
		// an otherwise right proof that quotes no method id at all
		if len(auth) > 0 {
			a := pick(g, "auth-entry", auth)
			return "", sign(a[0].(int), content, seq), "empty-method-id"
		}
	case "foreign-did":
		// a valid authentication key of ANOTHER registered DID, quoted with that DID's method id
		var cands [][2]interface{}
		for _, od := range sortedKeys(w.DID.Entries) {
			e := w.DID.Entries[od]
			if od == did || e.Tombstone {
				continue
			}
			a, _ := g.authKeysOf(e.Doc)
			cands = append(cands, a...)
		}
		if len(cands) > 0 {
			c := pick(g, "foreign-entry", cands)
			return c[1].(string), sign(c[0].(int), content, seq), "key-of-another-did"
		}
		fallthrough
	case "vm-only":
		if len(others) > 0 {
			o := pick(g, "other-entry", others)
			return o[1].(string), sign(o[0].(int), content, seq), "key-outside-authentication"
		}
		fallthrough
	case "not-listed":
		ki := g.intn("stranger", 6)
		id := vmID(did, ki, false)
		if len(auth) > 0 && g.chance("quote-listed-id", 50) {
			id = pick(g, "auth-entry", auth)[1].(string)
		}
		return id, sign(ki, content, seq), "unlisted-or-rotated-out-key"
	case "wrong-seq":
		if len(auth) > 0 {
			a := pick(g, "auth-entry", auth)
			s := pick(g, "bad-seq", []uint64{seq + 1, seq - 1, 0, ^uint64(0), seq + 2})
			if s == seq {
				s = seq + 1
			}
			return a[1].(string), sign(a[0].(int), content, s), "wrong-sequence"
		}
	case "prev-content":
		if len(auth) > 0 && prev != nil {
			a := pick(g, "auth-entry", auth)
			return a[1].(string), sign(a[0].(int), docBytes(prev), seq), "previous-document"
		}
	case "other-content":
		if len(auth) > 0 {
			a := pick(g, "auth-entry", auth)
			other := docBytes(&didtypes.DIDDocument{Id: w.Keys[g.intn("otherdid", 6)].DID()})
			return a[1].(string), sign(a[0].(int), other, seq), "other-content"
		}
	case "garbage":
		id := vmID(did, 0, false)
		if len(auth) > 0 {
			id = pick(g, "auth-entry", auth)[1].(string)
		}
		return id, []byte("garbage-signature-garbage-signature-garbage-signature-0123456789"), "garbage"
	case "empty":
		id := vmID(did, 0, false)
		return id, nil, "empty"
	case "wrong-id":
		if len(auth) > 0 {
			a := pick(g, "auth-entry", auth)
			return a[1].(string) + "x", sign(a[0].(int), content, seq), "wrong-method-id"
		}
	}
	if id, sig, ok := right(); ok {
		return id, sig, "right"
	}
	return vmID(did, 0, false), sign(g.intn("stranger", 6), content, seq), "unlisted-or-rotated-out-key"
}

// otherDID draws an identifier different from did: an unrelated pool DID, or a valid DID that
// is textually related to it (a strict prefix of it, or an extension of it).
func (g *G) otherDID(did string, pool []string) string {
	const p = "did:panacea:"
	body := strings.TrimPrefix(did, p)
	switch g.weighted("other-did-kind", "pool", 5, "truncated", 3, "extended", 2, "case", 3) {
	case "case":
		// base58 is case sensitive: flipping the case of a letter yields another valid DID
		var at []int
		for i := 0; i < len(body); i++ {
			c := body[i]
			if (c >= 'a' && c <= 'z' || c >= 'A' && c <= 'Z') && !strings.ContainsRune("oOiIlL", rune(c)) {
				at = append(at, i)
			}
		}
		if len(at) > 0 {
			i := at[g.intn("case-at", len(at))]
			b := []byte(body)
			b[i] ^= 0x20
			return p + string(b)
		}
	case "truncated":
		if len(body) > 32 {
			return p + body[:32+g.intn("cut", len(body)-32)]
		}
	case "extended":
		if len(body) < 44 {
			return did + strings.Repeat("z", 1+g.intn("ext", 44-len(body)))
		}
	}
	return pick(g, "other-did", pool)
}

func (g *G) genDidTx() *world.TxStep {
	n := 1
	if g.chance("multi", g.bias("multi", 8)) {
		n = 2
	}
	if n > 1 && g.chance("chain", g.bias("chain", 60)) {
		msgs, note := g.genChain(g.genDidMsg, n, g.chance("poison", g.bias("poison", 45)))
		return g.wrapTx(msgs, note, true)
	}
	var msgs []sdk.Msg
	note := ""
	for i := 0; i < n; i++ {
		m, nt := g.genDidMsg()
		msgs = append(msgs, m)
		note += nt + ";"
	}
	return g.wrapTx(msgs, note, true)
}

// genDidGenesis draws a did genesis section that passes the module's genesis validation and
// in which several map keys may carry documents about the SAME identifier (the validation
// does not tie the key to the document id), plus tombstones.
func (g *G) genDidGenesis(cdc codec.JSONCodec, keys []world.DIDKey, consistent ...bool) json.RawMessage {
	gs := &didtypes.GenesisState{Documents: map[string]*didtypes.DIDDocumentWithSeq{}}
	var dids []string
	for _, k := range keys {
		dids = append(dids, k.DID())
	}
	n := 2 + g.intn("gen-dids", 5)
	big := false
	if g.chance("gen-big-registry", 30) {
		big = true
		// more entries than any page or batch size an export might use
		n = 33 + g.intn("gen-big-n", 110) // up to 142: beyond batch sizes of 32, 64, 100 and 128
		for i := 0; i < n+8; i++ {
			h := sha256.Sum256([]byte(fmt.Sprintf("generated-did-%d", i)))
			dids = append(dids, "did:panacea:"+base58.Encode(h[:]))
		}
	}
	for i := 0; i < n; i++ {
		key := pick(g, "gen-did-key", dids)
		if big {
			key = dids[len(dids)-1-i] // every generated identifier once: n distinct entries
		}
		about := key
		if len(consistent) == 0 && g.chance("gen-doc-about-other", 45) {
			about = pick(g, "gen-doc-about", dids)
		}
		if g.chance("gen-tombstone", 15) {
			gs.Documents[key] = &didtypes.DIDDocumentWithSeq{Document: &didtypes.DIDDocument{}, Sequence: uint64(1 + g.intn("gen-seq", 3))}
			continue
		}
		saved := g.W
		g.W = &world.World{Keys: keys}
		g.wellFormedOnly = true // a genesis section that passes the module's own validation
		doc := g.genDoc(about, []int{g.intn("gen-auth", 6)})
		g.wellFormedOnly = false
		g.W = saved
		seq := uint64(g.intn("gen-seq", 3))
		if g.chance("gen-seq-boundary", 25) {
			// counters next to their limits (any sequence passes the genesis validation)
			seq = pick(g, "gen-seq-limit", []uint64{1 << 32, 1<<63 - 1, 1 << 63, ^uint64(0) - 1, ^uint64(0)})
		}
		gs.Documents[key] = &didtypes.DIDDocumentWithSeq{Document: doc, Sequence: seq}
	}
	bz, err := cdc.MarshalJSON(gs)
	if err != nil {
		panic(err)
	}
	return bz
}

// retarget rewrites an accepted DID message so that it addresses another active identifier whose
// document lists, under authentication, the key the message's proof was made with.
func (g *G) retarget(msg sdk.Msg) (sdk.Msg, bool) {
	var did string
	var sig []byte
	switch x := msg.(type) {
	case *didtypes.MsgCreateDIDRequest:
		did, sig = x.Did, x.Signature
	case *didtypes.MsgUpdateDIDRequest:
		did, sig = x.Did, x.Signature
	case *didtypes.MsgDeactivateDIDRequest:
		did, sig = x.Did, x.Signature
	}
	ki, ok := g.W.DID.ProofKey(sig)
	if !ok {
		return nil, false
	}
	type cand struct{ did, vmid string }
	var cands []cand
	for _, d := range sortedKeys(g.W.DID.Entries) {
		e := g.W.DID.Entries[d]
		if d == did || e.Tombstone {
			continue
		}
		auth, _ := g.authKeysOf(e.Doc)
		for _, a := range auth {
			if a[0].(int) == ki {
				cands = append(cands, cand{d, a[1].(string)})
			}
		}
	}
	if len(cands) == 0 {
		return nil, false
	}
	c := cands[g.intn("retarget-to", len(cands))]
	switch x := msg.(type) {
	case *didtypes.MsgCreateDIDRequest:
		x.Did, x.VerificationMethodId = c.did, c.vmid
	case *didtypes.MsgUpdateDIDRequest:
		x.Did, x.VerificationMethodId = c.did, c.vmid
	case *didtypes.MsgDeactivateDIDRequest:
		x.Did, x.VerificationMethodId = c.did, c.vmid
	}
	return msg, true
}

// genDidReads draws 1-3 reads of registered (active or deactivated) DIDs as a client would
// issue them at any moment -- also between the transactions of a block -- against the latest
// state or against an earlier height that is still available.
func (g *G) genDidReads() *world.Step {
	dids := sortedKeys(g.W.DID.Entries)
	if len(dids) == 0 {
		dids = []string{world.DIDKeys()[0].DID()}
	}
	var qs []world.QueryStep
	for n := 1 + g.intn("nreads", 3); n > 0; n-- {
		d := pick(g, "read-did", dids)
		req := &didtypes.QueryDIDRequest{DidBase64: base64.StdEncoding.EncodeToString([]byte(d))}
		bz, _ := req.Marshal()
		q := world.QueryStep{Path: "/panacea.did.v2.Query/DID", Data: base64.StdEncoding.EncodeToString(bz)}
		if h := g.W.C.Height; h > 1 && g.chance("earlier-height", 60) {
			q.Height = 1 + int64(g.intn("height", int(h)))
		}
		qs = append(qs, q)
	}
	return &world.Step{Kind: "queries", Queries: qs}
}

// readdressed returns a copy of doc whose id is did (everything else untouched).
func readdressed(doc *didtypes.DIDDocument, did string) *didtypes.DIDDocument {
	var c didtypes.DIDDocument
	bz, _ := doc.Marshal()
	_ = c.Unmarshal(bz)
	c.Id = did
	return &c
}
