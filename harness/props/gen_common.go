// Package props holds the generators, the rapid state machines and the per-property checks.
package props

import (
	"encoding/base64"
	"fmt"
	"math/bits"
	"reflect"
	"strings"
	"time"

	sdk "github.com/cosmos/cosmos-sdk/types"
	"github.com/cosmos/cosmos-sdk/x/authz"
	"github.com/cosmos/cosmos-sdk/x/group"
	"github.com/gogo/protobuf/proto"
	"pgregory.net/rapid"

	"verifharness/simnet"
	"verifharness/world"
)

// G bundles the rapid handle and the world the generators read their model state from.
type G struct {
	T *rapid.T
	W *world.World
	// Bias is a per-property knob table (percentages).
	Bias map[string]int
	// proofIntent is the identifier the DID proof under construction is made for.
	proofIntent string
	// burstDID / burstLeft: a run of consecutive failing proofs for one identifier is in progress.
	burstDID  string
	burstLeft int
	// wellFormedOnly suppresses deliberately malformed parts in generated documents.
	wellFormedOnly bool
	// forceEmptyDocProof makes the next proof cover the id-less document.
	forceEmptyDocProof bool
	// groupProposer is set by signersFor when the messages must travel as a group proposal
	// (1 + index of the proposing account), and consumed by the TxStep builder.
	groupProposer int
	// W0Accts is the account pool (available before the world exists, for genesis generation)
	W0Accts []simnet.Account
	// proofs made while generating the current tx
	proofs []world.ProofReg
}

func (g *G) bias(k string, def int) int {
	if v, ok := g.Bias[k]; ok {
		return v
	}
	return def
}

// rapid's integer generators are deliberately biased towards small values and boundaries;
// the weights in this package are meant literally, so every decision is drawn from fair bits
// (rapid.Bool is unbiased). Shrinking still works: bits shrink to false, i.e. towards 0 /
// the first alternative.
var bitGens [65]*rapid.Generator[uint64]

func bitsGen(k int) *rapid.Generator[uint64] {
	if bitGens[k] == nil {
		bitGens[k] = rapid.Custom(func(t *rapid.T) uint64 {
			var v uint64
			for i := 0; i < k; i++ {
				if rapid.Bool().Draw(t, "b") {
					v |= 1 << uint(i)
				}
			}
			return v
		})
	}
	return bitGens[k]
}

func (g *G) chance(label string, pct int) bool {
	if pct <= 0 {
		return false
	}
	if pct >= 100 {
		return true
	}
	return int(bitsGen(10).Draw(g.T, label)*100/1024) < pct
}

func (g *G) intn(label string, n int) int {
	if n <= 1 {
		return 0
	}
	k := bits.Len(uint(n-1)) + 4
	return int(bitsGen(k).Draw(g.T, label) % uint64(n))
}

func pick[T any](g *G, label string, xs []T) T {
	return xs[g.intn(label, len(xs))]
}

// weighted picks a key according to integer weights (deterministic order).
func (g *G) weighted(label string, kv ...interface{}) string {
	total := 0
	for i := 1; i < len(kv); i += 2 {
		total += kv[i].(int)
	}
	r := g.intn(label, total)
	for i := 0; i < len(kv); i += 2 {
		r -= kv[i+1].(int)
		if r < 0 {
			return kv[i].(string)
		}
	}
	return kv[0].(string)
}

func (g *G) acct(label string) int {
	// once the harness's group exists its policy account (a 32-byte address nobody holds a
	// key for) is an actor like any other; it acts through group proposals of its member
	if g.W != nil && g.W.Group.Policy != "" && len(g.W.Accts) > world.NumAccounts && g.chance(label+"-group-policy", g.bias("group-actor", 12)) {
		return world.NumAccounts
	}
	return g.intn(label, world.NumAccounts)
}

func (g *G) bech(i int) string { return g.W.Accts[i].Bech }

// ghostAddresses are well-formed addresses nobody in the pool can sign for.
func ghostAddresses() []string {
	mk := func(n int, fill byte) string {
		b := make([]byte, n)
		for i := range b {
			b[i] = fill + byte(i)
		}
		return sdk.AccAddress(b).String()
	}
	return []string{mk(20, 0x10), mk(32, 0x20), mk(1, 0x30), mk(19, 0x40), mk(21, 0x50), world.BurnAddress}
}

// addrString returns an address spelling for account i: usually canonical, sometimes upper case.
func (g *G) addrString(label string, i int) string {
	if g.chance(label+"-upper", g.bias("uppercase", 3)) {
		return strings.ToUpper(g.bech(i))
	}
	return g.bech(i)
}

// signMode draws a sign mode for a slot. aux is only legal for non-fee-payers.
func (g *G) signMode(label string, mayAux bool) string {
	if mayAux {
		return g.weighted(label, simnet.ModeDirect, 6, simnet.ModeAmino, 2, simnet.ModeAux, 2)
	}
	return g.weighted(label, simnet.ModeDirect, 7, simnet.ModeAmino, 3)
}

// signersFor draws the signer slots of a tx. With probability `right` it is exactly the
// harness table's required set in order; otherwise one adversarial variation.
func (g *G) signersFor(msgs []sdk.Msg, exec int, right int, aminoOK bool) ([]simnet.SignerSpec, string) {
	var req []int
	ok := true
	g.groupProposer = 0
	if exec > 0 {
		req = []int{exec - 1}
	} else {
		req, ok = g.W.SignerIndexes(msgs)
	}
	if ok && exec == 0 {
		for _, i := range req {
			if i >= world.NumAccounts {
				// the group policy account has to stand behind a message: the messages travel as a
				// group proposal (exec = try) whose proposer signs
				req = []int{g.W.Group.Member}
				g.groupProposer = g.W.Group.Member + 1
				aminoOK = false
				if !g.chance("right-proposer", 85) {
					// somebody who is not the group's member proposes
					o := (g.W.Group.Member + 1 + g.intn("other-proposer", world.NumAccounts-1)) % world.NumAccounts
					req, g.groupProposer = []int{o}, o+1
				}
				break
			}
		}
	}
	mode := func(i int) string {
		m := g.signMode(fmt.Sprintf("mode%d", i), i > 0)
		if !aminoOK && m == simnet.ModeAmino {
			return simnet.ModeDirect
		}
		return m
	}
	if !ok || len(req) == 0 {
		// a required signer is not a pool account: sign with somebody anyway
		a := g.acct("stray-signer")
		return []simnet.SignerSpec{{Acct: a, Mode: mode(0)}}, "stray"
	}
	mk := func(idx []int) []simnet.SignerSpec {
		out := make([]simnet.SignerSpec, len(idx))
		for i, a := range idx {
			out[i] = simnet.SignerSpec{Acct: a, Mode: mode(i)}
		}
		return out
	}
	if g.chance("right-signers", right) {
		return mk(req), "right"
	}
	if len(req) >= 2 && g.chance("single-signer", 45) {
		// e.g. an add-record with a named fee payer signed by the writer alone, or by the payer alone
		return mk([]int{req[g.intn("which-single", len(req))]}), "one-of-required"
	}
	switch g.weighted("wrong-signers", "other", 4, "swap", 2, "drop", 2, "garbage", 2, "seq", 2, "extra", 1) {
	case "other":
		idx := append([]int{}, req...)
		p := g.intn("which", len(idx))
		idx[p] = (idx[p] + 1 + g.intn("shift", world.NumAccounts-1)) % world.NumAccounts
		return mk(idx), "other-account"
	case "swap":
		if len(req) >= 2 {
			idx := append([]int{}, req...)
			idx[0], idx[1] = idx[1], idx[0]
			return mk(idx), "swapped"
		}
		return mk([]int{(req[0] + 1) % world.NumAccounts}), "other-account"
	case "drop":
		if len(req) >= 2 {
			p := g.intn("which", len(req))
			idx := append(append([]int{}, req[:p]...), req[p+1:]...)
			return mk(idx), "dropped"
		}
		return mk([]int{(req[0] + 2) % world.NumAccounts}), "other-account"
	case "garbage":
		s := mk(req)
		s[g.intn("which", len(s))].Garbage = true
		return s, "garbage"
	case "seq":
		s := mk(req)
		s[g.intn("which", len(s))].SeqOff = int64(pick(g, "seqoff", []int{-1, 1, 2}))
		return s, "wrong-seq"
	default:
		idx := append(append([]int{}, req...), (req[0]+1)%world.NumAccounts)
		return mk(idx), "extra"
	}
}

func (g *G) fee(label string) string {
	switch g.weighted(label, "zero", 3, "small", 6, "two", 1, "magnitude", g.bias("fee-magnitude", 2)) {
	case "zero":
		return ""
	case "two":
		return "3stake,7umed"
	case "magnitude":
		// every order of magnitude the balances allow, and the values around powers of ten and two
		base := pick(g, label+"-base", []int64{1e4, 1e5, 1e6, 1e7, 1e8, 1e9, 1e10, 1e11, 1 << 31, 1 << 32, 1 << 36})
		return fmt.Sprintf("%dumed", base+int64(g.intn(label+"-off", 3))-1)
	}
	return fmt.Sprintf("%dumed", 1+g.intn(label+"-amt", 5000))
}

// wrapTx finishes a TxStep from messages: optional authz wrapping, signers, fee.
func (g *G) wrapTx(msgs []sdk.Msg, note string, aminoOK bool) *world.TxStep {
	exec := 0
	if g.chance("exec", g.bias("exec", 8)) {
		exec = 1 + g.acct("grantee")
		// aim at a grantee that holds a matching grant most of the time
		if rs := world.RequiredSigners(msgs[0]); len(rs) > 0 && g.chance("aim-grant", 70) {
			prefix := canonStr(rs[len(rs)-1]) + "|"
			suffix := "|" + sdk.MsgTypeURL(msgs[0])
			var cands []int
			for _, k := range sortedKeys(g.W.Authz) {
				if strings.HasPrefix(k, prefix) && strings.HasSuffix(k, suffix) {
					if i := g.W.AcctIndex(k[len(prefix) : len(k)-len(suffix)]); i >= 0 {
						cands = append(cands, i)
					}
				}
			}
			if len(cands) > 0 {
				exec = 1 + pick(g, "granted", cands)
			}
		}
	}
	signers, how := g.signersFor(msgs, exec, g.bias("right-signers", 80), aminoOK && exec == 0)
	ts := &world.TxStep{Signers: signers, Fee: g.fee("fee"), Exec: exec, Group: g.groupProposer, Note: note + " signers=" + how, Proofs: g.proofs}
	if ts.Group > 0 {
		ts.Note += " via-group-proposal"
	}
	g.groupProposer = 0
	g.proofs = nil
	if g.chance("low-gas", g.bias("low-gas", 7)) {
		// a gas limit that runs out in the ante handler or in the middle of a message handler
		ts.Gas = uint64(pick(g, "gas-limit", []int{30000, 50000, 70000, 90000, 120000, 160000}))
		ts.Note += " low-gas"
	}
	for _, m := range msgs {
		ts.Msgs = append(ts.Msgs, world.EncodeMsg(m))
	}
	if ts.Fee != "" && g.chance("fee-granter", g.bias("fee-granter", 2)) {
		// AuthInfo.fee.granter: one of the signers (often not the first) or any account; no
		// allowance was ever granted
		ts.FeeGranter = 1 + g.intn("granter", world.NumAccounts)
		if len(ts.Signers) > 0 && g.chance("granter-is-signer", 70) {
			ts.FeeGranter = 1 + ts.Signers[len(ts.Signers)-1-g.intn("which-signer", len(ts.Signers))].Acct
		}
		ts.Note += " fee-granter"
	}
	if g.chance("tip", g.bias("tip", 2)) {
		// the optional AuthInfo.tip names a tipper (any account, signer or not) and an amount
		ts.TipFrom = 1 + g.intn("tipper", world.NumAccounts)
		ts.TipAmount = fmt.Sprintf("%d%s", 1+g.intn("tip-amt", 1000000), pick(g, "tip-denom", []string{simnet.FeeDenom, simnet.BondDenom}))
		ts.Note += " tip-field"
	}
	if g.chance("tamper", g.bias("tamper", 3)) {
		// an intermediary replaces the content of one message after the signers have signed
		i := g.intn("tampered-msg", len(msgs))
		if t2, what := g.tamper(msgs[i]); t2 != nil {
			ts.SignedMsgs = ts.Msgs
			ts.Msgs = append([]world.MsgJSON{}, ts.SignedMsgs...)
			ts.Msgs[i] = world.EncodeMsg(t2)
			ts.Note += " tampered-after-signing(" + what + ")"
			if g.chance("prime-checktx", g.bias("prime-checktx", 35)) {
				ts.PrimeCheckTx = true
				ts.Note += " genuine-tx-checked-first"
			}
			if aminoOK && exec == 0 && ts.Group == 0 && g.chance("tamper-amino", 60) {
				for k := range ts.Signers {
					ts.Signers[k].Mode = simnet.ModeAmino
				}
			}
		}
	}
	return ts
}

// tamper returns a copy of m with one field changed: an account address replaced by another
// harness account's, or any structural edit.
func (g *G) tamper(m sdk.Msg) (sdk.Msg, string) {
	if g.chance("tamper-address", 60) {
		o := reflect.New(reflect.TypeOf(m).Elem()).Interface().(sdk.Msg)
		if err := proto.Unmarshal(protoOf(m), o); err == nil {
			type fld struct {
				v    reflect.Value
				path string
			}
			var addrs []fld
			var walk func(v reflect.Value, path string)
			walk = func(v reflect.Value, path string) {
				switch v.Kind() {
				case reflect.Ptr, reflect.Interface:
					if !v.IsNil() {
						walk(v.Elem(), path)
					}
				case reflect.Struct:
					for i := 0; i < v.NumField(); i++ {
						if f := v.Type().Field(i); f.PkgPath == "" && !strings.HasPrefix(f.Name, "XXX_") {
							walk(v.Field(i), path+"."+f.Name)
						}
					}
				case reflect.String:
					if v.CanSet() && g.W.AcctIndex(canonStr(v.String())) >= 0 {
						addrs = append(addrs, fld{v, path})
					}
				}
			}
			walk(reflect.ValueOf(o), "")
			if len(addrs) > 0 {
				f := addrs[g.intn("tamper-field", len(addrs))]
				cur := g.W.AcctIndex(canonStr(f.v.String()))
				other := (cur + 1 + g.intn("tamper-other", len(g.W.Accts)-1)) % len(g.W.Accts)
				f.v.SetString(g.bech(other))
				return o, "address replaced at " + f.path
			}
		}
	}
	return structuralMutationOf(g.T, m)
}

// genAuthz draws a grant or revoke of a generic authorisation for a custom message type.
func (g *G) genAuthz(urls []string) *world.TxStep {
	granter, grantee := g.acct("granter"), g.acct("grantee")
	url := pick(g, "authz-url", urls)
	var msg sdk.Msg
	note := "authz-grant"
	if g.chance("revoke", 30) {
		m := authz.NewMsgRevoke(g.W.Accts[granter].Addr, g.W.Accts[grantee].Addr, url)
		msg = &m
		note = "authz-revoke"
	} else {
		m, err := authz.NewMsgGrant(g.W.Accts[granter].Addr, g.W.Accts[grantee].Addr, authz.NewGenericAuthorization(url), nil)
		if err != nil {
			panic(err)
		}
		msg = m
	}
	signers, how := g.signersFor([]sdk.Msg{msg}, 0, 90, false)
	return &world.TxStep{Msgs: []world.MsgJSON{world.EncodeMsg(msg)}, Signers: signers, Fee: g.fee("fee"), Note: note + " signers=" + how}
}

// genBankSend draws unrelated bank traffic.
func (g *G) genBankSend() *world.TxStep {
	from, to := g.acct("from"), g.acct("to")
	amt := fmt.Sprintf("%d%s", 1+g.intn("amt", 100000), pick(g, "denom", []string{simnet.FeeDenom, simnet.BondDenom, simnet.ThirdDenom}))
	msg := world.BankSend(g.bech(from), g.bech(to), amt)
	signers, how := g.signersFor([]sdk.Msg{msg}, 0, 90, true)
	return &world.TxStep{Msgs: []world.MsgJSON{world.EncodeMsg(msg)}, Signers: signers, Fee: g.fee("fee"), Note: "bank-send signers=" + how}
}

// genMixedTx draws a transaction mixing messages of all three custom modules, with fee and
// fee-payer variations (C15).
func (g *G) genMixedTx() *world.TxStep {
	n := 2 + g.intn("nmixed", 3)
	var msgs []sdk.Msg
	note := "mixed:"
	amino := true
	for i := 0; i < n; i++ {
		var m sdk.Msg
		var nt string
		switch g.weighted("module", "aol", 4, "did", 3, "pnft", 3) {
		case "aol":
			m, nt = g.genAolMsg()
		case "did":
			m, nt = g.genDidMsg()
		default:
			m, nt = g.genPnftMsg()
			amino = false
		}
		msgs = append(msgs, m)
		note += nt + ";"
	}
	ts := g.wrapTx(msgs, note, amino)
	switch g.weighted("fee-variant", "keep", 6, "huge", 2, "payer", 2) {
	case "huge":
		ts.Fee = "999999999999999umed"
	case "payer":
		ts.FeePayer = g.bech(g.acct("explicit-payer"))
		// the explicit payer must sign as well; add it when it is not yet a signer
		idx := g.W.AcctIndex(ts.FeePayer)
		has := false
		for _, s := range ts.Signers {
			has = has || s.Acct == idx
		}
		if !has && g.chance("payer-signs", 80) {
			ts.Signers = append(ts.Signers, simnet.SignerSpec{Acct: idx})
		}
	}
	return ts
}

// genChain draws a multi-message transaction whose messages depend on one another: each is
// generated against models that already contain the documented effect of the previous ones.
// With poison=true a final message is appended that cannot succeed in that speculative
// state, so that the node has to discard the whole branch.
func (g *G) genChain(gen func() (sdk.Msg, string), n int, poison bool) ([]sdk.Msg, string) {
	restore := g.W.SwapModels()
	defer restore()
	var msgs []sdk.Msg
	note := "chain:"
	for i := 0; i < n; i++ {
		var m sdk.Msg
		var nt string
		// prefer messages that succeed in the speculative state
		for try := 0; try < 4; try++ {
			m, nt = gen()
			probe := g.W.SwapModels()
			ok := g.W.Speculate(m)
			probe()
			if ok {
				break
			}
		}
		msgs = append(msgs, m)
		note += nt + ";"
		g.W.Speculate(m)
	}
	if poison {
		for try := 0; try < 6; try++ {
			m, nt := gen()
			probe := g.W.SwapModels()
			ok := g.W.Speculate(m)
			probe()
			if !ok {
				msgs = append(msgs, m)
				note += "POISON " + nt + ";"
				break
			}
		}
	}
	return msgs, note
}

// genPerturb draws a Simulate / CheckTx call on the primary instance with a (coherent)
// transaction of the given module generator.
func (g *G) genPerturb(gen func() (sdk.Msg, string), amino bool) *world.Step {
	msgs, note := g.genChain(gen, 1+g.intn("sim-n", 3), g.chance("sim-poison", 30))
	ts := g.wrapTx(msgs, "perturb "+note, amino)
	ts.Exec = 0
	kind := "simulate"
	if g.chance("checktx", 40) {
		kind = "checktx"
	}
	return &world.Step{Kind: kind, Tx: ts}
}

// genGroupSetup creates the harness's group: one member (weight 1), a threshold-1 policy with
// no minimum execution period, so that a proposal of the member executes in the same tx.
func (g *G) genGroupSetup() *world.TxStep {
	admin := g.intn("group-admin", world.NumAccounts)
	a := g.W.Accts[admin].Bech
	msg, err := group.NewMsgCreateGroupWithPolicy(a, []group.MemberRequest{{Address: a, Weight: "1"}}, "", "", true,
		group.NewThresholdDecisionPolicy("1", time.Hour, 0))
	if err != nil {
		panic(err)
	}
	return &world.TxStep{Msgs: []world.MsgJSON{world.EncodeMsg(msg)}, Signers: []simnet.SignerSpec{{Acct: admin}}, Fee: g.fee("fee"), Note: "create-group-with-policy"}
}

// genProbeReads draws 1-4 client queries out of the probe set (every single-item query and
// listing the models know of), issued at any moment -- also between the transactions of a
// block -- against the latest state or an earlier height. They carry no oracle of their own:
// reads must not influence what later reads of the latest state return, which the per-commit
// oracles then observe.
func (g *G) genProbeReads() *world.Step {
	ps := g.W.ProbeSet()
	if len(ps) == 0 {
		return &world.Step{Kind: "commit", DT: int64(1 + g.intn("dt", 100000))}
	}
	var qs []world.QueryStep
	for n := 1 + g.intn("nreads", 4); n > 0; n-- {
		p := ps[g.intn("probe", len(ps))]
		q := world.QueryStep{Path: p.Path, Data: base64.StdEncoding.EncodeToString(p.Req)}
		if h := g.W.C.Height; h > 1 && g.chance("earlier-height", 60) {
			q.Height = 1 + int64(g.intn("height", int(h)))
		}
		qs = append(qs, q)
	}
	return &world.Step{Kind: "queries", Queries: qs}
}
