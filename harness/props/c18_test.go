package props

import (
	"bytes"
	"encoding/base64"
	"encoding/json"
	"fmt"
	"os"
	"strings"
	"testing"

	sdk "github.com/cosmos/cosmos-sdk/types"
	"github.com/medibloc/panacea-core/v2/types/compkey"
	aoltypes "github.com/medibloc/panacea-core/v2/x/aol/types"
	"pgregory.net/rapid"

	"verifharness/simnet"
	"verifharness/world"
)

// rawKey is a CompositeKey without any validation, to test compkey itself.
type rawKey struct{ parts [][]byte }

func (k rawKey) ByteSlices() [][]byte { return k.parts }
func (k *rawKey) FromByteSlices(b [][]byte) error {
	k.parts = b
	return nil
}
func (k rawKey) Strings() []string {
	out := make([]string, len(k.parts))
	for i, p := range k.parts {
		out[i] = string(p)
	}
	return out
}
func (k *rawKey) FromStrings(s []string) error {
	k.parts = nil
	for _, x := range s {
		k.parts = append(k.parts, []byte(x))
	}
	return nil
}

// refEncode is the independent reference: [len][bytes]...
func refEncode(parts [][]byte) ([]byte, bool) {
	var out []byte
	for _, p := range parts {
		if len(p) > 255 {
			return nil, false
		}
		out = append(out, byte(len(p)))
		out = append(out, p...)
	}
	return out, true
}

// freshAolKey returns an empty AOL key of type i (owner, topic, writer, record).
func freshAolKey(i int) compkey.CompositeKey {
	switch i {
	case 0:
		return &aoltypes.OwnerCompositeKey{}
	case 1:
		return &aoltypes.TopicCompositeKey{}
	case 2:
		return &aoltypes.WriterCompositeKey{}
	}
	return &aoltypes.RecordCompositeKey{}
}

// checkTypedDecode: decoding arbitrary bytes as AOL key type typ returns an error, or a key
// that re-encodes to exactly these bytes; it never panics and never drops anything silently.
func checkTypedDecode(bz []byte, typ int) (msg string, refused bool) {
	defer func() {
		if r := recover(); r != nil {
			msg = fmt.Sprintf("decoding %x as AOL key type %d panicked: %v", bz, typ, r)
		}
	}()
	dst := freshAolKey(typ)
	if err := compkey.Decode(bz, dst); err != nil {
		return "", true
	}
	re, err := compkey.Encode(dst)
	if err != nil || !bytes.Equal(re, bz) {
		return fmt.Sprintf("AOL key type %d accepted %x but holds %q, which encodes to %x: silently truncated", typ, bz, dst.ByteSlices(), re), false
	}
	return "", false
}

func tupleEq(a, b [][]byte) bool {
	if len(a) != len(b) {
		return false
	}
	for i := range a {
		if !bytes.Equal(a[i], b[i]) { // nil and empty are identified
			return false
		}
	}
	return true
}

func b64s(parts [][]byte) []string {
	out := make([]string, len(parts))
	for i, p := range parts {
		out[i] = base64.StdEncoding.EncodeToString(p)
	}
	return out
}

func mustPanics(f func()) (p bool) {
	defer func() {
		if recover() != nil {
			p = true
		}
	}()
	f()
	return false
}

// checkTuplePair evaluates every C18 oracle on the pair (x, y). It returns a description of
// the first failed oracle, or "".
func checkTuplePair(x, y [][]byte) string {
	for _, t := range [][][]byte{x, y} {
		want, ok := refEncode(t)
		got, err := compkey.Encode(&rawKey{t})
		if !ok {
			if err == nil {
				return fmt.Sprintf("a component longer than 255 bytes was encoded (truncated?) to %d bytes", len(got))
			}
			if !mustPanics(func() { compkey.MustEncode(&rawKey{t}) }) {
				return "MustEncode did not panic on an oversized component"
			}
			if _, err := compkey.PartialEncode(&rawKey{t}, len(t)); err == nil {
				return "PartialEncode accepted an oversized component"
			}
			continue
		}
		if err != nil {
			return fmt.Sprintf("Encode refused a legal tuple: %v", err)
		}
		if !bytes.Equal(got, want) {
			return fmt.Sprintf("Encode = %x, reference encoder = %x", got, want)
		}
		var back rawKey
		if err := compkey.Decode(got, &back); err != nil {
			return fmt.Sprintf("Decode(Encode(x)) failed: %v", err)
		}
		if !tupleEq(back.parts, t) {
			return fmt.Sprintf("Decode(Encode(x)) = %q, x = %q", back.parts, t)
		}
		for k := 0; k <= len(t); k++ {
			pe, err := compkey.PartialEncode(&rawKey{t}, k)
			wantp, _ := refEncode(t[:k])
			if err != nil || !bytes.Equal(pe, wantp) {
				return fmt.Sprintf("PartialEncode(x,%d) = %x (%v), reference %x", k, pe, err, wantp)
			}
		}
		if _, err := compkey.PartialEncode(&rawKey{t}, len(t)+1); err == nil {
			return "PartialEncode accepted more components than the tuple has"
		}
	}
	ex, okx := refEncode(x)
	ey, oky := refEncode(y)
	if !okx || !oky {
		return ""
	}
	gx, _ := compkey.Encode(&rawKey{x})
	gy, _ := compkey.Encode(&rawKey{y})
	if bytes.Equal(gx, gy) != tupleEq(x, y) {
		return fmt.Sprintf("injectivity: Encode(x)==Encode(y) is %v but x==y is %v", bytes.Equal(gx, gy), tupleEq(x, y))
	}
	_ = ex
	// prefix-exactness: PartialEncode(x,k) is a byte-prefix of Encode(y) <=> y[:k] == x[:k]
	for k := 0; k <= len(x); k++ {
		px, _ := compkey.PartialEncode(&rawKey{x}, k)
		isPrefix := bytes.HasPrefix(ey, px)
		same := len(y) >= k && tupleEq(y[:k], x[:k])
		if isPrefix != same {
			return fmt.Sprintf("prefix-exactness at k=%d: byte-prefix=%v, first k components equal=%v", k, isPrefix, same)
		}
	}
	return ""
}

// checkDecodeArbitrary: Decode of any bytes returns an error or a tuple that re-encodes to
// the same bytes; it never panics.
func checkDecodeArbitrary(bz []byte) (msg string) {
	defer func() {
		if r := recover(); r != nil {
			msg = fmt.Sprintf("Decode panicked: %v", r)
		}
	}()
	var k rawKey
	if err := compkey.Decode(bz, &k); err != nil {
		return ""
	}
	re, err := compkey.Encode(&rawKey{k.parts})
	if err != nil || !bytes.Equal(re, bz) {
		return fmt.Sprintf("Decode accepted %x but it re-encodes to %x (%v)", bz, re, err)
	}
	return ""
}

var hostileBytes = []byte{0x00, 0x01, 0x02, 0x14, 0x20, 0xfe, 0xff}

func genComponent() *rapid.Generator[[]byte] {
	return rapid.Custom(func(t *rapid.T) []byte {
		var n int
		switch rapid.IntRange(0, 9).Draw(t, "lenclass") {
		case 0:
			n = 0
		case 1:
			n = 1
		case 2:
			n = 2
		case 3:
			n = 254
		case 4:
			n = 255
		case 5:
			n = rapid.SampledFrom([]int{256, 257, 300, 65536}).Draw(t, "over")
		default:
			n = rapid.IntRange(0, 255).Draw(t, "len")
		}
		b := make([]byte, n)
		fill := rapid.IntRange(0, 3).Draw(t, "fill")
		switch fill {
		case 0:
			h := rapid.SampledFrom(hostileBytes).Draw(t, "hb")
			for i := range b {
				b[i] = h
			}
		case 1:
			for i := range b {
				b[i] = hostileBytes[i%len(hostileBytes)]
			}
		default:
			if n <= 300 {
				bs := rapid.SliceOfN(rapid.Byte(), n, n).Draw(t, "bytes")
				copy(b, bs)
			}
		}
		return b
	})
}

func genTuple() *rapid.Generator[[][]byte] {
	return rapid.SliceOfN(genComponent(), 0, 4)
}

// relatedTuple derives y from x by one boundary-moving mutation.
func relatedTuple(t *rapid.T, x [][]byte) [][]byte {
	y := make([][]byte, len(x))
	for i := range x {
		y[i] = append([]byte{}, x[i]...)
	}
	switch rapid.IntRange(0, 6).Draw(t, "relation") {
	case 0: // identical
	case 1: // move last byte of component i to the front of i+1
		if len(y) >= 2 {
			i := rapid.IntRange(0, len(y)-2).Draw(t, "i")
			if len(y[i]) > 0 {
				y[i+1] = append([]byte{y[i][len(y[i])-1]}, y[i+1]...)
				y[i] = y[i][:len(y[i])-1]
			}
		}
	case 2: // merge two components, length byte becomes content
		if len(y) >= 2 {
			i := rapid.IntRange(0, len(y)-2).Draw(t, "i")
			m := append(append(append([]byte{}, y[i]...), byte(len(y[i+1]))), y[i+1]...)
			y = append(append(append([][]byte{}, y[:i]...), m), y[i+2:]...)
		}
	case 3: // split a component at a position, the byte there becomes a length
		if len(y) >= 1 {
			i := rapid.IntRange(0, len(y)-1).Draw(t, "i")
			if len(y[i]) >= 2 {
				p := rapid.IntRange(1, len(y[i])-1).Draw(t, "p")
				a, b := append([]byte{}, y[i][:p]...), append([]byte{}, y[i][p:]...)
				y = append(append(append([][]byte{}, y[:i]...), a, b), y[i+1:]...)
			}
		}
	case 4: // truncate to a prefix of the tuple
		if len(y) > 0 {
			y = y[:rapid.IntRange(0, len(y)-1).Draw(t, "k")]
		}
	case 5: // change one byte
		if len(y) > 0 {
			i := rapid.IntRange(0, len(y)-1).Draw(t, "i")
			if len(y[i]) > 0 {
				p := rapid.IntRange(0, len(y[i])-1).Draw(t, "p")
				y[i][p] ^= 0x01
			}
		}
	default: // independent tuple
		y = genTuple().Draw(t, "y")
	}
	return y
}

func TestC18(t *testing.T) {
	st := newPureStats("C18")
	defer st.flush()
	rapid.Check(t, func(rt *rapid.T) {
		x := genTuple().Draw(rt, "x")
		y := relatedTuple(rt, x)
		if msg := checkTuplePair(x, y); msg != "" {
			failPure(rt, "C18", "c18-pair", map[string]interface{}{"x": b64s(x), "y": b64s(y)}, "%s", msg)
		}
		arb := rapid.SliceOfN(rapid.Byte(), 0, 600).Draw(rt, "arbitrary")
		if rapid.Bool().Draw(rt, "near-valid") {
			if e, ok := refEncode(x); ok && len(e) > 0 {
				arb = append([]byte{}, e...)
				switch rapid.IntRange(0, 2).Draw(rt, "corrupt") {
				case 0:
					arb = arb[:len(arb)-1]
				case 1:
					arb[0]++
				default:
					arb = append(arb, 0x05)
				}
			}
		}
		if msg := checkDecodeArbitrary(arb); msg != "" {
			failPure(rt, "C18", "c18-decode", map[string]interface{}{"bytes": base64.StdEncoding.EncodeToString(arb)}, "%s", msg)
		}
		ex, okx := refEncode(x)
		ey, oky := refEncode(y)
		nt := okx && oky && !tupleEq(x, y) && (bytes.HasPrefix(ex, ey) || bytes.HasPrefix(ey, ex) || len(ex) == len(ey))
		lbl := "pair"
		if !okx || !oky {
			lbl = "oversized component"
		}
		st.add(nt, hash8(ex, ey), map[string]interface{}{"x": b64s(x), "y": b64s(y)}, lbl)
	})
}

// TestC18Grid enumerates the length grid {0,1,254,255,256}^k for k <= 3 completely, in
// pairs, with hostile fill bytes.
func TestC18Grid(t *testing.T) {
	st := newPureStats("C18")
	defer st.flush()
	lens := []int{0, 1, 254, 255, 256}
	var tuples [][][]byte
	var rec func(cur [][]byte, k int)
	mk := func(n int, fill byte) []byte { return bytes.Repeat([]byte{fill}, n) }
	rec = func(cur [][]byte, k int) {
		tuples = append(tuples, append([][]byte{}, cur...))
		if k == 3 {
			return
		}
		for _, n := range lens {
			for _, f := range []byte{0x00, 0x01, 0xff} {
				rec(append(cur, mk(n, f)), k+1)
			}
		}
	}
	rec(nil, 0)
	n := 0
	for i, x := range tuples {
		// pair each tuple with itself, its prefixes and a stride of others (complete over the
		// single-tuple laws, and every tuple appears in cross pairs)
		others := [][][]byte{x}
		for k := 0; k < len(x); k++ {
			others = append(others, x[:k])
		}
		for j := 1; j <= 8; j++ {
			others = append(others, tuples[(i*7+j*131)%len(tuples)])
		}
		for _, y := range others {
			if msg := checkTuplePair(x, y); msg != "" {
				failPure(t, "C18", "c18-pair", map[string]interface{}{"x": b64s(x), "y": b64s(y)}, "%s", msg)
			}
			ex, _ := refEncode(x)
			ey, _ := refEncode(y)
			st.add(!tupleEq(x, y), hash8(ex, ey, []byte{byte(len(x)), byte(len(y))}), nil, "grid pair")
			n++
		}
	}
	st.extra["grid_tuples_enumerated"] = len(tuples)
	st.extra["grid_exhaustive"] = true
}

// TestC18AolKeys: the four AOL key types with legal addresses (1..255 bytes), validator-admitted
// topic names and any offset: binary and string (genesis) forms round-trip.
func TestC18AolKeys(t *testing.T) {
	st := newPureStats("C18")
	defer st.flush()
	topicChars := "ABCXYZabcxyz0189._-"
	rapid.Check(t, func(rt *rapid.T) {
		addr := func(label string) sdk.AccAddress {
			n := rapid.SampledFrom([]int{1, 2, 19, 20, 21, 32, 64, 254, 255}).Draw(rt, label+"-len")
			return sdk.AccAddress(rapid.SliceOfN(rapid.Byte(), n, n).Draw(rt, label))
		}
		tl := rapid.SampledFrom([]int{1, 2, 35, 69, 70}).Draw(rt, "topic-len")
		tb := make([]byte, tl)
		wide := rapid.Bool().Draw(rt, "wide-alphabet")
		for i := range tb {
			if wide {
				// any printable ASCII character: the name is used only if the message validator admits it
				tb[i] = byte(rapid.IntRange(0x20, 0x7e).Draw(rt, "wc"))
			} else {
				tb[i] = topicChars[rapid.IntRange(0, len(topicChars)-1).Draw(rt, "tc")]
			}
		}
		topic := string(tb)
		if (&aoltypes.MsgCreateTopicRequest{TopicName: topic, OwnerAddress: simnet.NewAccount("a0").Bech}).ValidateBasic() != nil {
			st.label("name not admitted by the validator (skipped)", 1)
			return
		}
		owner, writer := addr("owner"), addr("writer")
		off := rapid.SampledFrom([]uint64{0, 1, 255, 256, 1 << 32, 1<<63 - 1, 1 << 63, ^uint64(0)}).Draw(rt, "offset")
		if rapid.Bool().Draw(rt, "random-offset") {
			off = rapid.Uint64().Draw(rt, "off")
		}
		keys := []compkey.CompositeKey{
			&aoltypes.OwnerCompositeKey{OwnerAddress: owner},
			&aoltypes.TopicCompositeKey{OwnerAddress: owner, TopicName: topic},
			&aoltypes.WriterCompositeKey{OwnerAddress: owner, TopicName: topic, WriterAddress: writer},
			&aoltypes.RecordCompositeKey{OwnerAddress: owner, TopicName: topic, Offset: off},
		}
		fresh := []func() compkey.CompositeKey{
			func() compkey.CompositeKey { return &aoltypes.OwnerCompositeKey{} },
			func() compkey.CompositeKey { return &aoltypes.TopicCompositeKey{} },
			func() compkey.CompositeKey { return &aoltypes.WriterCompositeKey{} },
			func() compkey.CompositeKey { return &aoltypes.RecordCompositeKey{} },
		}
		for i, k := range keys {
			in := map[string]interface{}{"type": i, "owner": base64.StdEncoding.EncodeToString(owner), "writer": base64.StdEncoding.EncodeToString(writer), "topic": topic, "offset": off}
			enc, err := compkey.Encode(k)
			if err != nil {
				failPure(rt, "C18", "c18-aolkey", in, "Encode refused a legal AOL key: %v", err)
			}
			want, _ := refEncode(k.ByteSlices())
			if !bytes.Equal(enc, want) {
				failPure(rt, "C18", "c18-aolkey", in, "AOL key encodes to %x, reference %x", enc, want)
			}
			back := fresh[i]()
			if err := compkey.Decode(enc, back); err != nil {
				failPure(rt, "C18", "c18-aolkey", in, "Decode(Encode(key)) failed: %v", err)
			}
			if !tupleEq(back.ByteSlices(), k.ByteSlices()) {
				failPure(rt, "C18", "c18-aolkey", in, "binary round trip changed the key: %q -> %q", k.ByteSlices(), back.ByteSlices())
			}
			s := compkey.EncodeToString(k, aoltypes.GenesisKeySeparator)
			sb := fresh[i]()
			if err := compkey.DecodeFromString(s, aoltypes.GenesisKeySeparator, sb); err != nil {
				failPure(rt, "C18", "c18-aolkey", in, "DecodeFromString(EncodeToString(key)) failed for %q: %v", s, err)
			}
			if !tupleEq(sb.ByteSlices(), k.ByteSlices()) {
				failPure(rt, "C18", "c18-aolkey", in, "genesis string form %q round-trips to a different key: %q -> %q", s, k.ByteSlices(), sb.ByteSlices())
			}
			if strings.Count(s, aoltypes.GenesisKeySeparator) != len(k.ByteSlices())-1 {
				failPure(rt, "C18", "c18-aolkey", in, "string form %q has the wrong number of separators", s)
			}
		}
		// typed decoding of malformed byte strings: the encoding of a key of another arity, a key
		// with further well-formed components appended, or a third component of another width is
		// refused with an error or decodes to a key that re-encodes to exactly these bytes --
		// never a silent truncation
		extra := rapid.SampledFrom([][]byte{nil, {}, {0}, owner, writer, []byte(topic), {1, 2, 3}, make([]byte, 9)}).Draw(rt, "extra-component")
		for j, src := range keys {
			parts := append([][]byte{}, src.ByteSlices()...)
			if extra != nil {
				if rapid.Bool().Draw(rt, fmt.Sprintf("replace-last-%d", j)) && len(parts) > 1 {
					parts[len(parts)-1] = extra
				} else {
					parts = append(parts, extra)
				}
			}
			bz, ok := refEncode(parts)
			if !ok {
				continue
			}
			for i := range keys {
				in := map[string]interface{}{"bytes": base64.StdEncoding.EncodeToString(bz), "decoded_as_type": i}
				msg, refused := checkTypedDecode(bz, i)
				if msg != "" {
					failPure(rt, "C18", "c18-aolkey-malformed", in, "%s", msg)
				}
				if refused {
					st.label("typed decode refused a byte string of another shape", 1)
				}
			}
		}
		// the expected component layout of the specification
		var be [8]byte
		for i := 0; i < 8; i++ {
			be[i] = byte(off >> (56 - 8*i))
		}
		if !tupleEq(keys[3].ByteSlices(), [][]byte{owner, []byte(topic), be[:]}) {
			failPure(rt, "C18", "c18-aolkey", map[string]interface{}{"offset": off}, "record key components are %q", keys[3].ByteSlices())
		}
		st.add(len(owner) != 20 || tl >= 69 || off > 1<<32, hash8(owner, []byte(topic), writer, be[:]), map[string]interface{}{"owner_len": len(owner), "topic": topic, "offset": off}, "aol key set")
	})
}

func init() {
	dec := func(xs []interface{}) [][]byte {
		var out [][]byte
		for _, x := range xs {
			b, _ := base64.StdEncoding.DecodeString(x.(string))
			out = append(out, b)
		}
		return out
	}
	otherReplays["c18-pair"] = func(t *testing.T, raw []byte) {
		var doc struct {
			Input struct {
				X, Y []interface{}
			} `json:"input"`
		}
		if err := json.Unmarshal(raw, &doc); err != nil {
			t.Fatal(err)
		}
		if msg := checkTuplePair(dec(doc.Input.X), dec(doc.Input.Y)); msg != "" {
			fmt.Printf("REPLAY-VIOLATION property=C18 %s\n", msg)
			t.Fatalf("violation reproduced: %s", msg)
		}
	}
	otherReplays["c18-aolkey-malformed"] = func(t *testing.T, raw []byte) {
		var doc struct {
			Input struct {
				Bytes string `json:"bytes"`
				Type  int    `json:"decoded_as_type"`
			} `json:"input"`
		}
		if err := json.Unmarshal(raw, &doc); err != nil {
			t.Fatal(err)
		}
		b, _ := base64.StdEncoding.DecodeString(doc.Input.Bytes)
		if msg, _ := checkTypedDecode(b, doc.Input.Type); msg != "" {
			fmt.Printf("REPLAY-VIOLATION property=C18 %s\n", msg)
			t.Fatalf("violation reproduced: %s", msg)
		}
	}
	otherReplays["c18-decode"] = func(t *testing.T, raw []byte) {
		var doc struct {
			Input struct {
				Bytes string `json:"bytes"`
			} `json:"input"`
		}
		if err := json.Unmarshal(raw, &doc); err != nil {
			t.Fatal(err)
		}
		b, _ := base64.StdEncoding.DecodeString(doc.Input.Bytes)
		if msg := checkDecodeArbitrary(b); msg != "" {
			fmt.Printf("REPLAY-VIOLATION property=C18 %s\n", msg)
			t.Fatalf("violation reproduced: %s", msg)
		}
	}
}

// TestC18Genesis : the string form of the AOL keys as the MODULE writes and reads it — topics
// with validator-admitted names (including the dot names "." and "..", separators-lookalikes,
// prefixes of one another) are created by transactions, the chain is exported and re-initialised,
// and every topic, writer and record must be back under its own key.
func TestC18Genesis(t *testing.T) {
	st := newPureStats("C18")
	defer st.flush()
	special := []string{".", "..", "...", "a.b", "a..b", "-", "_", "a", "A", "..a", "a..", "0", "a-b", "a_b", "1.0"}
	rapid.Check(t, func(rt *rapid.T) {
		w, err := world.New(world.Options{Prop: "C18", Also: alsoSet([]string{"C01", "C13"}), Open: OpenFindings()})
		if err != nil {
			rt.Fatalf("world: %v", err)
		}
		send := func(signer int, m sdk.Msg) {
			if err := w.Apply(world.Step{Kind: "tx", Tx: &world.TxStep{Msgs: []world.MsgJSON{world.EncodeMsg(m)}, Signers: []simnet.SignerSpec{{Acct: signer}}}}); err != nil {
				rt.Fatalf("ORACLE C18: %v", err)
			}
		}
		n := rapid.IntRange(1, 3).Draw(rt, "topics")
		var names []string
		for i := 0; i < n; i++ {
			name := rapid.SampledFrom(special).Draw(rt, "name")
			if rapid.IntRange(0, 3).Draw(rt, "random-name") == 0 {
				b := make([]byte, rapid.IntRange(1, 4).Draw(rt, "len"))
				for j := range b {
					b[j] = byte(rapid.IntRange(0x20, 0x7e).Draw(rt, "c"))
				}
				name = string(b)
			}
			owner := rapid.IntRange(0, 1).Draw(rt, "owner")
			if (&aoltypes.MsgCreateTopicRequest{TopicName: name, OwnerAddress: w.Accts[owner].Bech}).ValidateBasic() != nil {
				continue
			}
			names = append(names, name)
			send(owner, &aoltypes.MsgCreateTopicRequest{TopicName: name, OwnerAddress: w.Accts[owner].Bech})
			send(owner, &aoltypes.MsgAddWriterRequest{TopicName: name, Moniker: "m", WriterAddress: w.Accts[2].Bech, OwnerAddress: w.Accts[owner].Bech})
			for r := rapid.IntRange(0, 2).Draw(rt, "records"); r > 0; r-- {
				send(2, &aoltypes.MsgAddRecordRequest{TopicName: name, Key: []byte("k"), Value: []byte("v"), WriterAddress: w.Accts[2].Bech, OwnerAddress: w.Accts[owner].Bech})
			}
		}
		for _, s := range []world.Step{{Kind: "commit", DT: 5}, {Kind: "export_import", ZeroHeight: rapid.Bool().Draw(rt, "zero-height")}} {
			if err := w.Apply(s); err != nil {
				if p := os.Getenv("VERIF_REPLAY_OUT"); p != "" {
					_ = w.WriteReplay(p, map[string]interface{}{"property": "C18", "violation": err.Error()})
				}
				rt.Fatalf("ORACLE C18: the module's genesis string form does not bring the keys back: %v", err)
			}
		}
		dots := false
		for _, nm := range names {
			dots = dots || strings.Trim(nm, ".") == ""
		}
		st.add(len(names) > 0, hash8([]byte(strings.Join(names, "\x00"))), map[string]interface{}{"topics": names}, "genesis string form through the module")
		if dots {
			st.label("c18 topic named with dots only", 1)
		}
	})
}
