package props

import (
	"bytes"
	"encoding/json"
	"fmt"
	"github.com/gogo/protobuf/proto"
	"os"
	"path/filepath"
	"reflect"
	"runtime"
	"strings"
	"sync"
	"sync/atomic"
	"testing"
	"time"

	dbm "github.com/cometbft/cometbft-db"
	abci "github.com/cometbft/cometbft/abci/types"
	sdk "github.com/cosmos/cosmos-sdk/types"
	"github.com/medibloc/panacea-core/v2/types/compkey"
	aoltypes "github.com/medibloc/panacea-core/v2/x/aol/types"
	didcrypto "github.com/medibloc/panacea-core/v2/x/did/client/crypto"
	didtypes "github.com/medibloc/panacea-core/v2/x/did/types"
	"pgregory.net/rapid"

	"verifharness/simnet"
	"verifharness/world"
)

var CfgC20 = &MachineCfg{
	Prop: "C20",
	Gens: withGens("commit", 22),
	Bias: map[string]int{"right-signers": 94, "exec": 3, "right-proof": 85},
	Rule: "generated concurrent workloads under the race detector: (a) a history is first executed sequentially and the answer of every probe-set query at every height is recorded; the same blocks are then executed by one goroutine on a fresh instance while 2-12 reader goroutines issue the probe queries at strictly historical heights (fully unsynchronised, also during Commit) and at the latest height, and a further goroutine calls CheckTx/Simulate (the latter two serialised against Commit only, as CometBFT does); every answer must equal the recorded answer of the height it reports; (b) 2-16 goroutines hammer ValidateBasic/GetSignBytes/GetSigners/DID validation/composite keys on shared and private messages and compare with sequentially computed results; (c) key-store plans of concurrent Save/Load/LoadByAddress on shared and distinct addresses with a wait-cycle detector; race reports are attributed by the innermost non-runtime frame; non-trivial = a plan in which a query overlapped a block that changes its answer / a Save concurrent with >=2 LoadByAddress",
	Step: burnStep,
}

func init() { Machines["C20"] = CfgC20 }

// TestC20Snapshot : queries served during block execution see committed snapshots.
func TestC20Snapshot(t *testing.T) { snapshotPlan(t, "C20") }

// TestC09Concurrent is the same plan claimed for C09: a replica that serves queries, CheckTx
// and Simulate from other goroutines while it executes the blocks computes the same
// per-transaction codes and application hashes as the replica that executed them alone
// ("irrespective of hardware parallelism"); run under the race detector.
func TestC09Concurrent(t *testing.T) { snapshotPlan(t, "C09") }

func snapshotPlan(t *testing.T, prop string) {
	cfg := CfgC20
	st := newPureStats(prop)
	defer st.flush()
	rapid.Check(t, func(rt *rapid.T) {
		g := &G{T: rt, Bias: cfg.Bias}
		w, err := world.New(world.Options{Prop: prop, Open: OpenFindings()})
		if err != nil {
			rt.Fatalf("world: %v", err)
		}
		g.W = w
		n := 20 + g.intn("steps", 40)
		for i := 0; i < n; i++ {
			kind := g.weighted("kind", cfg.Gens...)
			if err := w.Apply(*g.genStep(cfg, kind)); err != nil {
				rt.Fatalf("sequential run: %v", err)
			}
		}
		if err := w.Apply(world.Step{Kind: "commit", DT: 5}); err != nil {
			rt.Fatalf("sequential run: %v", err)
		}
		readers := 2 + g.intn("readers", 11)
		perReader := 150 + g.intn("queries", 250)
		seed := uint64(g.intn("schedule-seed", 1<<20))
		probes := w.ProbeSet()
		first := w.Blocks[0].Height - 1
		last := w.C.Height
		// oracle: answers at every committed height of the sequential run
		want := map[int64][][]byte{}
		for h := first; h <= last; h++ {
			want[h] = world.Answers(w.C, probes, h)
		}
		changing := 0
		for i := range probes {
			for h := first + 1; h <= last; h++ {
				if !bytes.Equal(want[h][i], want[h-1][i]) {
					changing++
					break
				}
			}
		}
		// concurrent phase on a fresh instance
		c2, err := simnet.NewChain(dbm.NewMemDB(), "", simnet.GenesisOptions{Accounts: w.Accts})
		if err != nil {
			rt.Fatalf("%v", err)
		}
		var commitMu sync.RWMutex
		var abciMu sync.Mutex // CometBFT serialises the mempool and consensus connections
		var committed atomic.Int64
		committed.Store(c2.Height)
		var failure atomic.Value
		fail := func(f string, a ...interface{}) {
			failure.CompareAndSwap(nil, fmt.Sprintf(f, a...))
		}
		var overlap atomic.Int64
		var inBlock atomic.Bool
		done := make(chan struct{})
		var wg, cwg sync.WaitGroup
		var producerDone atomic.Bool
		var served atomic.Int64
		for r := 0; r < readers; r++ {
			wg.Add(1)
			go func(r int) {
				defer wg.Done()
				x := seed*2654435761 + uint64(r)*40503 + 1
				next := func() uint64 { x = x*6364136223846793005 + 1442695040888963407; return x >> 33 }
				for q := 0; (q < perReader || !producerDone.Load()) && q < perReader*40 && failure.Load() == nil; q++ {
					served.Add(1)
					i := int(next() % uint64(len(probes)))
					p := probes[i]
					top := committed.Load()
					if next()%3 == 0 {
						// latest height: serialised against Commit only
						commitMu.RLock()
						h := committed.Load()
						qh := int64(0)
						if next()%2 == 0 {
							qh = h // the last committed height named explicitly
						}
						res := c2.QueryRaw(p.Path, p.Req, qh)
						commitMu.RUnlock()
						got := append([]byte(fmt.Sprintf("%d|%s|", res.Code, res.Codespace)), res.Value...)
						if exp, ok := want[h]; ok && !bytes.Equal(got, exp[i]) {
							fail("latest-height query %q served while height %d was the last committed one answered %q, the state of height %d answers %q", p.Name, h, trunc(got, 200), h, trunc(exp[i], 200))
						}
					} else if top-1 > first {
						// strictly historical: h < last committed height (a query at the last
						// committed height is a latest-height query and belongs to the branch above)
						h := first + int64(next()%uint64(top-first))
						res := c2.QueryRaw(p.Path, p.Req, h)
						got := append([]byte(fmt.Sprintf("%d|%s|", res.Code, res.Codespace)), res.Value...)
						if !bytes.Equal(got, want[h][i]) {
							fail("query %q at fixed height %d answered %q while blocks were executing, the committed state of that height answers %q", p.Name, h, trunc(got, 200), trunc(want[h][i], 200))
						}
					}
					if inBlock.Load() {
						overlap.Add(1)
					}
					if next()%8 == 0 {
						runtime.Gosched()
					}
				}
			}(r)
		}
		// CheckTx / Simulate caller
		cwg.Add(1)
		go func() {
			defer cwg.Done()
			k := 0
			for {
				select {
				case <-done:
					return
				default:
				}
				b := w.Blocks[k%len(w.Blocks)]
				k++
				for _, raw := range b.Raw {
					abciMu.Lock()
					c2.App.CheckTx(abci.RequestCheckTx{Tx: raw, Type: abci.CheckTxType_New})
					_, _, _ = c2.App.Simulate(raw)
					abciMu.Unlock()
				}
				runtime.Gosched()
			}
		}()
		// block producer
		for _, b := range w.Blocks {
			if failure.Load() != nil {
				break
			}
			abciMu.Lock()
			_, err := c2.BeginBlock(time.Duration(b.DT) * time.Second)
			abciMu.Unlock()
			if err != nil {
				fail("producer: %v", err)
				break
			}
			inBlock.Store(true)
			for i, raw := range b.Raw {
				abciMu.Lock()
				res := c2.DeliverTx(raw)
				abciMu.Unlock()
				if res.Code != b.Res[i].Code {
					fail("tx %d of height %d: code %d while queries were served, %d sequentially", i, b.Height, res.Code, b.Res[i].Code)
				}
			}
			abciMu.Lock()
			_, err = c2.EndBlock()
			abciMu.Unlock()
			if err != nil {
				fail("producer: %v", err)
				break
			}
			inBlock.Store(false)
			abciMu.Lock()
			commitMu.Lock()
			err = c2.Commit()
			committed.Store(c2.Height)
			commitMu.Unlock()
			abciMu.Unlock()
			if err != nil {
				fail("producer: %v", err)
				break
			}
			if !bytes.Equal(c2.App.LastCommitID().Hash, b.Hash) {
				fail("app hash at height %d differs from the sequential run while queries were served", b.Height)
			}
		}
		producerDone.Store(true)
		wg.Wait()
		close(done)
		cwg.Wait()
		if f := failure.Load(); f != nil {
			if p := os.Getenv("VERIF_REPLAY_OUT"); p != "" {
				_ = w.WriteReplay(p, map[string]interface{}{"property": prop, "kind": "c20-plan", "readers": readers, "per_reader": perReader, "schedule_seed": seed, "violation": f})
			}
			rt.Fatalf("ORACLE %s: %s", prop, f)
		}
		st.add(changing > 0 && overlap.Load() > 0, hash8([]byte(w.ShapeString()), []byte{byte(readers)}), map[string]interface{}{"blocks": len(w.Blocks), "probes": len(probes), "readers": readers, "queries": served.Load(), "queries_overlapping_a_block": overlap.Load(), "probes_whose_answer_changes": changing}, "snapshot plan")
		st.label("c20 queries served", int(served.Load()))
		st.label("c20 queries overlapping block execution", int(overlap.Load()))
	})
}

// ---- (b) shared validation / signing code ---------------------------------------------------------

var pureRaceCase atomic.Int64

func TestC20PureRace(t *testing.T) {
	st := newPureStats("C20")
	defer st.flush()
	e := newC14Env()
	rapid.Check(t, func(rt *rapid.T) {
		pureRaceCase.Add(1)
		nShared := 4 + rapid.IntRange(0, 8).Draw(rt, "shared")
		var shared []sdk.Msg
		for i := 0; i < nShared; i++ {
			shared = append(shared, genHostileMsg(rt))
		}
		// valid messages in unusual but legal spellings (upper-case bech32, padded free text):
		// code that normalises its input in place shows up as a write on a shared message
		for i, n := 0, rapid.IntRange(1, 3).Draw(rt, "legal-spellings"); i < n; i++ {
			m := genValidMsg(rt, rapid.IntRange(0, len(msgFactories)-1).Draw(rt, "valid-type"))
			var walk func(v reflect.Value)
			walk = func(v reflect.Value) {
				switch v.Kind() {
				case reflect.Ptr, reflect.Interface:
					if !v.IsNil() {
						walk(v.Elem())
					}
				case reflect.Struct:
					for j := 0; j < v.NumField(); j++ {
						if v.Type().Field(j).PkgPath == "" {
							walk(v.Field(j))
						}
					}
				case reflect.String:
					if v.CanSet() && strings.HasPrefix(v.String(), "panacea1") {
						v.SetString(strings.ToUpper(v.String()))
					}
				}
			}
			walk(reflect.ValueOf(m))
			shared = append(shared, m)
		}
		G := 2 + rapid.IntRange(0, 14).Draw(rt, "goroutines")
		iters := 30 + rapid.IntRange(0, 60).Draw(rt, "iters")
		type exp struct {
			verr  string
			sb    string
			sgn   string
			valid bool
		}
		compute := func(m sdk.Msg) exp {
			var x exp
			if p := callNoPanic(func() {
				if err := m.ValidateBasic(); err != nil {
					x.verr = "rejected"
				} else {
					x.valid = true
				}
			}); p != "" {
				x.verr = "panic"
			}
			if x.valid {
				_ = callNoPanic(func() { x.sgn = fmt.Sprint(m.GetSigners()) })
				if bz, err := e.signBytes(e.txc, c14Modes[0].mode, m); err == nil {
					x.sb = string(bz)
				}
				if lm, ok := m.(interface{ GetSignBytes() []byte }); ok {
					_ = callNoPanic(func() { x.sb += string(lm.GetSignBytes()) })
				}
			}
			return x
		}
		// the sequential reference is computed on a copy: the shared instance itself is touched
		// for the first time by the concurrent goroutines
		want := make([]exp, len(shared))
		for i, m := range shared {
			cp := reflect.New(reflect.TypeOf(m).Elem()).Interface().(sdk.Msg)
			if err := proto.Unmarshal(protoOf(m), cp); err != nil {
				cp = m
			}
			want[i] = compute(cp)
		}
		var failure atomic.Value
		var wg sync.WaitGroup
		for gi := 0; gi < G; gi++ {
			wg.Add(1)
			go func(gi int) {
				defer wg.Done()
				for it := 0; it < iters; it++ {
					i := (gi*7 + it) % len(shared)
					if got := compute(shared[i]); got != want[i] {
						failure.CompareAndSwap(nil, fmt.Sprintf("concurrent evaluation of %T gives %+v, sequential %+v", shared[i], got, want[i]))
					}
					// DID helpers and composite keys on shared values
					_ = didtypes.ValidateDID("did:panacea:7Prd74ry1Uct87nZqL3ny7aR7Cg46JamVbJgk8azVgUm")
					_ = didtypes.ValidateKeyType("EcdsaSecp256k1VerificationKey2019")
					if it < 4 {
						// key types never seen before by this process, different in every goroutine
						_ = didtypes.ValidateKeyType(fmt.Sprintf("FutureKey-%d-%d-%d", pureRaceCase.Load(), gi, it))
					}
					k := &aoltypes.TopicCompositeKey{OwnerAddress: e.acct.Addr, TopicName: "a"}
					bz, _ := compkey.Encode(k)
					var back aoltypes.TopicCompositeKey
					if err := compkey.Decode(bz, &back); err != nil || back.TopicName != "a" {
						failure.CompareAndSwap(nil, "composite key round trip failed under concurrency")
					}
				}
			}(gi)
		}
		wg.Wait()
		if f := failure.Load(); f != nil {
			rt.Fatalf("ORACLE C20: %s", f)
		}
		st.add(G >= 4, hash8([]byte(fmt.Sprint(G, iters, nShared)), []byte(fmt.Sprintf("%v", shared[0]))), map[string]interface{}{"goroutines": G, "iterations": iters, "shared_messages": nShared}, "pure-code plan")
	})
}

// ---- (c) key store ----------------------------------------------------------------------------------

type ksOp struct {
	Kind string `json:"kind"` // save | load | loadbyaddr
	Addr int    `json:"addr"`
}

// runKeyStorePlan executes plan[g] on goroutine g. It returns "" or a violation text.
func runKeyStorePlan(plan [][]ksOp) (string, map[string]int) {
	dir := caseDir("c20-ks-")
	defer os.RemoveAll(dir)
	ks, err := didcrypto.NewKeyStore(dir)
	if err != nil {
		panic(err)
	}
	key := func(a int) []byte { return bytes.Repeat([]byte{byte(a + 1)}, 32) }
	addr := func(a int) string { return fmt.Sprintf("addr%d", a) }
	// every address has one saved key to begin with
	paths := map[int]string{}
	maxAddr := 0
	for _, ops := range plan {
		for _, o := range ops {
			if o.Addr > maxAddr {
				maxAddr = o.Addr
			}
		}
	}
	for a := 0; a <= maxAddr; a++ {
		p, err := ks.Save(addr(a), key(a), "pw")
		if err != nil {
			return "initial save failed: " + err.Error(), nil
		}
		paths[a] = p
	}
	// a file outside the store directory that holds no key (the store lists its directory by address prefix)
	gdir := caseDir("c20-ks-garbage-")
	defer os.RemoveAll(gdir)
	garbage := filepath.Join(gdir, "garbage.json")
	_ = os.WriteFile(garbage, []byte("{\"crypto\": 1, \"address\""), 0o600)
	var completed atomic.Int64
	var failure atomic.Value
	stats := map[string]int{}
	var statMu sync.Mutex
	var wg sync.WaitGroup
	for gi, ops := range plan {
		wg.Add(1)
		go func(gi int, ops []ksOp) {
			defer wg.Done()
			for _, o := range ops {
				switch o.Kind {
				case "save":
					// file names carry a nanosecond timestamp; a collision is reported as an error, not a defect
					_, _ = ks.Save(addr(o.Addr), key(o.Addr), "pw")
				case "load":
					got, err := ks.Load(paths[o.Addr], "pw")
					if err != nil || !bytes.Equal(got, key(o.Addr)) {
						failure.CompareAndSwap(nil, fmt.Sprintf("Load of a saved key returned %x, %v", got, err))
					}
				case "load-missing":
					// operations that must fail cleanly (and leave the store usable)
					if got, err := ks.Load(filepath.Join(dir, fmt.Sprintf("no-such-file-%d", o.Addr)), "pw"); err == nil {
						failure.CompareAndSwap(nil, fmt.Sprintf("Load of a missing file returned %x without an error", got))
					}
				case "load-dir":
					if got, err := ks.Load(dir, "pw"); err == nil {
						failure.CompareAndSwap(nil, fmt.Sprintf("Load of a directory returned %x without an error", got))
					}
				case "load-garbage":
					if got, err := ks.Load(garbage, "pw"); err == nil {
						failure.CompareAndSwap(nil, fmt.Sprintf("Load of a file that holds no key returned %x without an error", got))
					}
				case "load-wrongpw":
					if got, err := ks.Load(paths[o.Addr], "not-the-password"); err == nil {
						failure.CompareAndSwap(nil, fmt.Sprintf("Load with a wrong password returned %x without an error", got))
					}
				case "loadbyaddr-unknown":
					if got, err := ks.LoadByAddress(fmt.Sprintf("stranger%d", o.Addr), "pw"); err == nil {
						failure.CompareAndSwap(nil, fmt.Sprintf("LoadByAddress of an unknown address returned %x without an error", got))
					}
				default:
					got, err := ks.LoadByAddress(addr(o.Addr), "pw")
					if err != nil || !bytes.Equal(got, key(o.Addr)) {
						failure.CompareAndSwap(nil, fmt.Sprintf("LoadByAddress of a saved key returned %x, %v", got, err))
					}
				}
				completed.Add(1)
				statMu.Lock()
				stats["keystore op "+o.Kind]++
				statMu.Unlock()
			}
		}(gi, ops)
	}
	doneCh := make(chan struct{})
	go func() { wg.Wait(); close(doneCh) }()
	lastCount, lastChange := int64(-1), time.Now()
	var prevParked bool
	for {
		select {
		case <-doneCh:
			if f := failure.Load(); f != nil {
				return f.(string), stats
			}
			return "", stats
		case <-time.After(time.Second):
		}
		c := completed.Load()
		if c != lastCount {
			lastCount, lastChange, prevParked = c, time.Now(), false
			continue
		}
		// no operation completed during the last second: is every unfinished worker parked on the key-store mutex?
		buf := make([]byte, 1<<20)
		buf = buf[:runtime.Stack(buf, true)]
		parked, running := 0, 0
		for _, gr := range strings.Split(string(buf), "\n\n") {
			if !strings.Contains(gr, "runKeyStorePlan.func") || strings.Contains(gr, "wg.Wait") || !strings.Contains(gr, "didcrypto") && !strings.Contains(gr, "client/crypto") {
				continue
			}
			if strings.Contains(gr, "sync.(*RWMutex).RLock") || strings.Contains(gr, "sync.(*RWMutex).Lock") || strings.Contains(gr, "sync.runtime_SemacquireRWMutex") {
				parked++
			} else {
				running++
			}
		}
		if parked > 0 && running == 0 {
			if prevParked && time.Since(lastChange) >= 2*time.Second {
				return fmt.Sprintf("deadlock: %d goroutines are parked on the key-store mutex in two samples one second apart with no operation completing in between (wait-for cycle)", parked), stats
			}
			prevParked = true
		} else {
			prevParked = false
		}
		if time.Since(lastChange) > 120*time.Second {
			return "INCONCLUSIVE: key-store plan made no progress for 120 s without a provable wait cycle", stats
		}
	}
}

func TestC20KeyStore(t *testing.T) {
	st := newPureStats("C20")
	defer st.flush()
	rapid.Check(t, func(rt *rapid.T) {
		G := 3 + rapid.IntRange(0, 9).Draw(rt, "goroutines")
		nAddr := 1 + rapid.IntRange(0, 2).Draw(rt, "addresses")
		plan := make([][]ksOp, G)
		saves, lbas := 0, 0
		for gi := range plan {
			n := 3 + rapid.IntRange(0, 5).Draw(rt, "ops")
			for i := 0; i < n; i++ {
				k := rapid.SampledFrom([]string{"save", "save", "load", "loadbyaddr", "loadbyaddr", "loadbyaddr", "load-missing", "load-dir", "load-garbage", "load-wrongpw", "loadbyaddr-unknown"}).Draw(rt, "op")
				if k == "save" {
					saves++
				}
				if k == "loadbyaddr" {
					lbas++
				}
				plan[gi] = append(plan[gi], ksOp{k, rapid.IntRange(0, nAddr-1).Draw(rt, "addr")})
			}
		}
		msg, stats := runKeyStorePlan(plan)
		for k, v := range stats {
			st.label(k, v)
		}
		if strings.HasPrefix(msg, "INCONCLUSIVE") {
			rt.Fatalf("%s", msg)
		}
		if msg != "" {
			if p := os.Getenv("VERIF_REPLAY_OUT"); p != "" {
				bz, _ := json.MarshalIndent(map[string]interface{}{"property": "C20", "kind": "c20-keystore", "plan": plan, "violation": msg}, "", " ")
				_ = os.WriteFile(p, bz, 0o644)
			}
			rt.Fatalf("ORACLE C20: %s", msg)
		}
		pbz, _ := json.Marshal(plan)
		st.add(saves >= 1 && lbas >= 2, hash8(pbz), map[string]interface{}{"goroutines": G, "plan": plan}, "keystore plan")
	})
}

func init() {
	otherReplays["c20-keystore"] = func(t *testing.T, raw []byte) {
		var doc struct {
			Plan [][]ksOp `json:"plan"`
		}
		if err := json.Unmarshal(raw, &doc); err != nil {
			t.Fatal(err)
		}
		// schedule-dependent: repeat the plan a few times
		for i := 0; i < 5; i++ {
			if msg, _ := runKeyStorePlan(doc.Plan); msg != "" && !strings.HasPrefix(msg, "INCONCLUSIVE") {
				fmt.Printf("REPLAY-VIOLATION property=C20 %s\n", msg)
				t.Fatalf("violation reproduced: %s", msg)
			}
		}
	}
	otherReplays["c20-plan"] = func(t *testing.T, raw []byte) {
		t.Skip("schedule-dependent: the printed history and plan are the record; re-run the unit with the same seed")
	}
}
