package props

import (
	"verifharness/world"
)

func lab(w *world.World, l string) int { return w.Labels[l] }

// Machines is the registry of history-quantified checks.
var Machines = map[string]*MachineCfg{}

func reg(c *MachineCfg) *MachineCfg {
	Machines[c.Prop] = c
	return c
}

var CfgC01 = reg(&MachineCfg{
	Prop: "C01",
	Gens: []interface{}{"aol", 62, "commit", 14, "crash", 4, "restart", 4, "export", 5, "bank", 3, "authz", 3, "did", 2, "pnft", 3},
	Bias: map[string]int{"right-signers": 88, "exec": 6, "multi": 6},
	Rule: "rapid state machine over signed txs through DeliverTx/Commit/Query: create-topic/add-writer/delete-writer/add-record by listed, delisted and foreign accounts on prefix-colliding topic names, plus crash, restart and genesis export/import; non-trivial = at least one record acknowledged and afterwards at least one of {its writer removed, restart/crash, export/import, second topic}; distinct = distinct sequence of (step kind, message types, outcome class)",
	NonTrivial: func(w *world.World) bool {
		if lab(w, "aol record acknowledged") == 0 {
			return false
		}
		return lab(w, "aol writer deleted after records") > 0 || lab(w, "crash in block") > 0 || lab(w, "export_import") > 0 || lab(w, "aol topic created") > 1
	},
})

var CfgC02 = reg(&MachineCfg{
	Prop: "C02",
	Gens: []interface{}{"aol", 66, "commit", 12, "authz", 12, "crash", 2, "restart", 2, "bank", 3, "pnft", 3},
	Bias: map[string]int{"right-signers": 55, "exec": 22, "fee-payer": 40},
	Rule: "same machine with independently chosen signer sets (right, other account, swapped, dropped, garbage signature, wrong sequence, extra), sign modes direct/amino-json/direct-aux, named fee payers and authz grant/revoke/exec; oracle = transition validity on the aol store diff of every DeliverTx; non-trivial = at least one refused AOL attempt and at least one accepted writer-list change or append",
	NonTrivial: func(w *world.World) bool {
		return lab(w, "aol refused attempt") > 0 && (lab(w, "aol record acknowledged") > 0 || lab(w, "aol writer added") > 0)
	},
})

var CfgC13 = reg(&MachineCfg{
	Prop: "C13",
	Gens: []interface{}{"aol", 70, "commit", 18, "crash", 3, "export", 4, "bank", 2, "walks", 3},
	Bias: map[string]int{"right-signers": 92, "exec": 4, "multi": 20},
	Rule: "AOL machine on prefix-related topic names; after every commit the owner/topic counters (store and query) and complete paging walks (key- and offset-style, limits 0/1/2/3/n±1/huge, forward and reverse, with and without count_total) are compared with the model; non-trivial = an owner with >=3 topics, a writer deleted, and a multi-page walk",
	NonTrivial: func(w *world.World) bool {
		return lab(w, "c13 multi-page walk") > 0 && lab(w, "aol writer deleted") > 0 && lab(w, "aol topic created") >= 3
	},
	Step: func(g *G, kind string) *world.Step {
		if kind != "walks" {
			return nil
		}
		// re-draw the set of paging walks used from now on
		var ws []world.PageReq
		for i := 0; i < 4; i++ {
			ws = append(ws, world.PageReq{
				Limit:      pick(g, "limit", []uint64{0, 1, 2, 3, 4, 5, 100, 101, ^uint64(0)}),
				Reverse:    g.chance("reverse", 40),
				CountTotal: g.chance("count", 50),
				KeyStyle:   g.chance("keystyle", 50),
			})
		}
		return &world.Step{Kind: "walks", Walks: ws}
	},
})
