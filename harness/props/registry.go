package props

import (
	sdk "github.com/cosmos/cosmos-sdk/types"
	"github.com/medibloc/panacea-core/v2/app"
	"verifharness/world"
)

func lab(w *world.World, l string) int { return w.Labels[l] }

// Machines is the registry of history-quantified checks.
var Machines = map[string]*MachineCfg{}

func reg(c *MachineCfg) *MachineCfg {
	Machines[c.Prop] = c
	return c
}

var CfgC01 = reg(&MachineCfg{
	Prop: "C01",
	Setup: func(g *G, opt *world.Options) {
		if g.chance("aol-genesis-mode", 22) {
			opt.AolGenesis = g.genAolGenesis(app.MakeEncodingConfig().Codec, false)
		}
	},
	Gens: []interface{}{"aol", 60, "commit", 14, "crash", 4, "restart", 4, "export", 5, "bank", 2, "authz", 3, "did", 2, "pnft", 2, "sim_aol", 4, "reads", 4},
	Bias: map[string]int{"right-signers": 88, "exec": 6, "multi": 6, "group": 12},
	Rule: "rapid state machine over signed txs through DeliverTx/Commit/Query: create-topic/add-writer/delete-writer/add-record by listed, delisted and foreign accounts on prefix-colliding topic names, plus crash, restart and genesis export/import; non-trivial = at least one record acknowledged and afterwards at least one of {its writer removed, restart/crash, export/import, second topic}; distinct = distinct sequence of (step kind, message types, outcome class)",
	NonTrivial: func(w *world.World) bool {
		if lab(w, "aol record acknowledged") == 0 {
			return false
		}
		return lab(w, "aol writer deleted after records") > 0 || lab(w, "crash in block") > 0 || lab(w, "export_import") > 0 || lab(w, "aol topic created") > 1
	},
})

var CfgC02 = reg(&MachineCfg{
	Prop: "C02",
	Setup: func(g *G, opt *world.Options) {
		if g.chance("aol-genesis-mode", 25) {
			opt.AolGenesis = g.genAolGenesis(app.MakeEncodingConfig().Codec, true)
		}
	},
	Gens: []interface{}{"aol", 62, "commit", 12, "authz", 12, "crash", 2, "restart", 2, "export", 3, "bank", 2, "pnft", 2, "sim_aol", 6, "reads", 3},
	Bias: map[string]int{"right-signers": 55, "exec": 22, "fee-payer": 40, "multi": 24, "tamper": 8, "group": 12},
	Rule: "same machine with independently chosen signer sets (right, other account, swapped, dropped, garbage signature, wrong sequence, extra), sign modes direct/amino-json/direct-aux, named fee payers and authz grant/revoke/exec; oracle = transition validity on the aol store diff of every DeliverTx; non-trivial = at least one refused AOL attempt and at least one accepted writer-list change or append",
	NonTrivial: func(w *world.World) bool {
		return lab(w, "aol refused attempt") > 0 && (lab(w, "aol record acknowledged") > 0 || lab(w, "aol writer added") > 0)
	},
})

var CfgC13 = reg(&MachineCfg{
	Prop: "C13",
	Setup: func(g *G, opt *world.Options) {
		if g.chance("aol-genesis-mode", 22) {
			opt.AolGenesis = g.genAolGenesis(app.MakeEncodingConfig().Codec, false)
		}
	},
	Gens: []interface{}{"aol", 68, "commit", 18, "crash", 3, "export", 4, "bank", 2, "walks", 3, "sim_aol", 2, "reads", 3},
	Bias: map[string]int{"right-signers": 94, "exec": 3, "multi": 10, "aol-owners": 2, "aol-create": 4, "aol-delw": 3, "aol-rec": 6, "big-listing": 12, "group": 15, "group-actor": 18},
	Rule: "AOL machine on prefix-related topic names; after every commit the owner/topic counters (store and query) and complete paging walks (key- and offset-style, limits 0/1/2/3/n±1/huge, forward and reverse, with and without count_total) are compared with the model; non-trivial = an owner with >=3 topics, a writer deleted, and a multi-page walk",
	NonTrivial: func(w *world.World) bool {
		return lab(w, "c13 multi-page walk") > 0 && lab(w, "aol writer deleted") > 0 && lab(w, "aol topic created") >= 3
	},
	Step: func(g *G, kind string) *world.Step {
		if kind != "walks" {
			return nil
		}
		// re-draw the set of paging walks used from now on
		var ws []world.PageReq
		for i := 0; i < 4; i++ {
			ws = append(ws, world.PageReq{
				Limit:      pick(g, "limit", []uint64{0, 1, 2, 3, 4, 5, 100, 101, ^uint64(0)}),
				Reverse:    g.chance("reverse", 40),
				CountTotal: g.chance("count", 50),
				KeyStyle:   g.chance("keystyle", 50),
			})
		}
		return &world.Step{Kind: "walks", Walks: ws}
	},
})

// ---- DID ----------------------------------------------------------------------------------------

var didGens = []interface{}{"did", 70, "commit", 14, "crash", 3, "restart", 2, "export", 3, "bank", 2, "aol", 2, "sim_did", 5, "read_did", 4}

var CfgC03 = reg(&MachineCfg{
	Prop: "C03", Gens: didGens,
	Setup: func(g *G, opt *world.Options) {
		// a registry that already holds entries, some with sequences next to the counter's limits
		if g.chance("did-genesis-mode", 22) {
			opt.DidGenesis = g.genDidGenesis(app.MakeEncodingConfig().Codec, world.DIDKeys(), true)
		}
	},
	Bias: map[string]int{"right-signers": 92, "exec": 3, "right-proof": 55, "did-replay": 6},
	Rule: "DID state machine: create/update/deactivate with independently chosen (signing key, signed content, signed sequence, quoted method id), key rotations, keys listed only as verification methods or under other relationships, ed25519 keys, unknown type labels, any relayer; oracle = harness proof ledger + did-store diff after every DeliverTx; non-trivial = an accepted key rotation followed by a refused attempt, or an attempt with a key outside authentication",
	NonTrivial: func(w *world.World) bool {
		return lab(w, "did key rotation") > 0 && lab(w, "did refused attempt") > 0
	},
})

var CfgC04 = reg(&MachineCfg{
	Prop: "C04", Gens: didGens,
	Setup: func(g *G, opt *world.Options) {
		// a registry that already holds entries, some with sequences next to the counter's limits
		if g.chance("did-genesis-mode", 22) {
			opt.DidGenesis = g.genDidGenesis(app.MakeEncodingConfig().Codec, world.DIDKeys(), true)
		}
	},
	Bias: map[string]int{"right-signers": 94, "exec": 2, "right-proof": 72, "did-replay": 22, "did-create": 22},
	Rule: "DID machine plus a replay action that re-submits any earlier accepted message (same inner fields, possibly another relayer/sign mode/block); oracle = sequence model (0 on create, +1 per accepted update/deactivate, unchanged otherwise) on store and read operation, and refusal of every replay; non-trivial = >=2 accepted updates and >=1 refused replay",
	NonTrivial: func(w *world.World) bool {
		return lab(w, "did updated") >= 2 && lab(w, "did replay refused") > 0
	},
})

var CfgC05 = reg(&MachineCfg{
	Prop: "C05",
	Setup: func(g *G, opt *world.Options) {
		// a registry that already holds entries and tombstones, often more than any batch size
		if g.chance("did-genesis-mode", 22) {
			opt.DidGenesis = g.genDidGenesis(app.MakeEncodingConfig().Codec, world.DIDKeys(), true)
		}
	},
	Gens: []interface{}{"did", 66, "commit", 14, "crash", 4, "restart", 4, "export", 6, "bank", 2, "sim_did", 4, "read_did", 8},
	Bias: map[string]int{"right-signers": 94, "exec": 2, "right-proof": 75, "did-deactivate": 25, "aim-tomb": 45, "did-replay": 8, "update-to-empty": 14, "did-mismatch": 12},
	Rule: "DID machine weighted to deactivation followed by long suffixes of create/update/deactivate on the tombstone with former and fresh keys, restarts, crashes and export/import; oracle = tombstone permanence (read says not found, entry byte-identical, every later message refused) and create-on-existing refused; non-trivial = a deactivation followed by >=3 attempts on the tombstone incl. one with a harness-made proof and a restart/export afterwards",
	NonTrivial: func(w *world.World) bool {
		return lab(w, "did deactivated") > 0 && lab(w, "did attempt on tombstone") >= 3 && lab(w, "did attempt on tombstone with harness-made proof") > 0 &&
			(lab(w, "export_import")+lab(w, "crash in block")+lab(w, "crash:between") > 0)
	},
})

var CfgC11 = reg(&MachineCfg{
	Prop: "C11", Gens: didGens,
	Setup: func(g *G, opt *world.Options) {
		// a registry that already holds entries (every one about its own identifier), often
		// more than any page or batch size
		if g.chance("did-genesis-mode", 25) {
			opt.DidGenesis = g.genDidGenesis(app.MakeEncodingConfig().Codec, world.DIDKeys(), true)
		}
	},
	Bias: map[string]int{"right-signers": 95, "exec": 7, "right-proof": 80, "did-mismatch": 30, "did-replay": 18, "did-retarget": 60, "update-to-empty": 10, "tombstone-proof": 35, "did-deactivate": 16, "did-segment": 12, "did-bare-doc": 14, "foreign-controller": 18},
	Rule: "DID machine in which the DID field, the document id and the signed payload are chosen independently (own, other user's, unregistered DIDs) and accepted messages are replayed under other DID fields; oracle = for every active entry under d the stored/read/exported document id is d; non-trivial = >=1 mismatching message carrying an otherwise valid proof",
	NonTrivial: func(w *world.World) bool {
		return lab(w, "did mismatching id refused")+w.Obs["c11 mismatching id accepted (open finding)"] > 0
	},
})

// ---- PNFT ---------------------------------------------------------------------------------------

var CfgC06 = reg(&MachineCfg{
	Prop: "C06",
	Setup: func(g *G, opt *world.Options) {
		if g.chance("pnft-genesis-mode", 18) {
			opt.PnftGenesis = g.genPnftGenesis(app.MakeEncodingConfig().Codec, false)
		}
	},
	Gens: []interface{}{"pnft", 66, "commit", 12, "authz", 10, "crash", 2, "restart", 2, "bank", 2, "export", 2, "sim_pnft", 5, "reads", 4},
	Bias: map[string]int{"right-signers": 68, "exec": 15, "pnft-handover": 5, "pnft-transfer": 6, "former-owner": 35, "tamper": 6, "group": 12},
	Rule: "PNFT state machine: the seven message types with actors chosen independently of signers, hand-over chains, burn and re-mint, former owners and creators, ghost receivers, upper-case spellings, authz grant/exec; oracle = transition validity (actor is the current owner and stands behind the tx) + full decoded-store agreement after every DeliverTx; non-trivial = an ownership hand-over followed by a refused attempt of the former owner",
	NonTrivial: func(w *world.World) bool {
		return lab(w, "pnft denom handed over")+lab(w, "pnft transferred") > 0 && lab(w, "pnft former owner refused") > 0
	},
})

var CfgC12 = reg(&MachineCfg{
	Prop: "C12",
	Setup: func(g *G, opt *world.Options) {
		if g.chance("pnft-genesis-mode", 20) {
			opt.PnftGenesis = g.genPnftGenesis(app.MakeEncodingConfig().Codec, false)
		}
	},
	Gens: []interface{}{"pnft", 73, "commit", 16, "crash", 2, "export", 3, "bank", 1, "walks", 2, "sim_pnft", 3, "reads", 4},
	Bias: map[string]int{"right-signers": 95, "exec": 2, "adversarial-ids": 1, "by-owner": 90, "former-owner": 5, "pnft-transfer": 5, "group": 10},
	Rule: "PNFT machine over adversarial identifiers (prefixes of one another, separators, invalid UTF-8, 300-byte ids, NUL while not excluded by an open finding); after every tx the decoded store equals the model, after every commit every single-item view and listing (tokens of denom, by owner, denoms paged, denoms by owner) is compared for all pool arguments; completeness: a fresh pair minted by the denom owner is accepted; non-trivial = >=2 denoms, >=3 tokens minted, a transfer and a burn",
	NonTrivial: func(w *world.World) bool {
		return lab(w, "pnft denom created") >= 2 && lab(w, "pnft minted") >= 3 && lab(w, "pnft transferred") > 0 && lab(w, "pnft burned") > 0
	},
	Step: func(g *G, kind string) *world.Step {
		if kind != "walks" {
			return nil
		}
		var ws []world.PageReq
		for i := 0; i < 3; i++ {
			ws = append(ws, world.PageReq{Limit: pick(g, "limit", []uint64{0, 1, 2, 3, 100}), Reverse: g.chance("reverse", 40),
				CountTotal: g.chance("count", 50), KeyStyle: g.chance("keystyle", 50)})
		}
		return &world.Step{Kind: "walks", Walks: ws}
	},
})

// ---- world-level --------------------------------------------------------------------------------

var agreement = []string{"C01", "C13", "C03", "C04", "C05", "C12"}

var CfgC08 = reg(&MachineCfg{
	Prop: "C08", Also: agreement,
	Setup: func(g *G, opt *world.Options) {
		// the first chain may itself start from a generated genesis (owners and writers with
		// addresses of any legal length, tombstones, documents the handlers would not build)
		cdc := app.MakeEncodingConfig().Codec
		if g.chance("did-genesis-mode", 20) {
			opt.DidGenesis = g.genDidGenesis(cdc, world.DIDKeys())
		}
		if g.chance("aol-genesis-mode", 25) {
			opt.AolGenesis = g.genAolGenesis(cdc, false)
		}
		if g.chance("pnft-genesis-mode", 20) {
			opt.PnftGenesis = g.genPnftGenesis(cdc, false)
		}
	},
	Gens: []interface{}{"aol", 26, "did", 26, "pnft", 30, "commit", 8, "export", 8, "bank", 2},
	Bias: map[string]int{"right-signers": 95, "exec": 2, "right-proof": 85, "did-deactivate": 18, "group": 12},
	Rule: "mixed histories over all custom modules (transferred tokens, handed-over and deleted denoms, burned tokens, tombstones, rich documents, empty/huge record fields), export at random points, optionally chained; oracle = double-export equality, module genesis validation, InitChain succeeds, probe-set answers byte-identical before/after, re-export identical, models agree with the imported chain; non-trivial = an export with entities of >=3 modules and one of {transferred token, handed-over denom, tombstone, writer deleted}",
	NonTrivial: func(w *world.World) bool {
		if lab(w, "export_import") == 0 {
			return false
		}
		mods := 0
		if lab(w, "aol topic created") > 0 {
			mods++
		}
		if lab(w, "did created") > 0 {
			mods++
		}
		if lab(w, "pnft denom created") > 0 {
			mods++
		}
		return mods >= 3 && lab(w, "pnft transferred")+lab(w, "pnft denom handed over")+lab(w, "did deactivated")+lab(w, "aol writer deleted") > 0
	},
	Final: func(w *world.World) error { return w.Apply(world.Step{Kind: "export_import"}) },
})

var CfgC15 = reg(&MachineCfg{
	Prop: "C15", Also: agreement,
	Gens: []interface{}{"aol", 32, "did", 20, "pnft", 24, "mixed", 10, "commit", 8, "burn", 4, "bank", 2, "gov", 2},
	Bias: map[string]int{"right-signers": 85, "exec": 0, "multi": 35, "fee-payer": 50, "right-proof": 80, "tamper": 6, "group": 8, "tip": 10, "fee-granter": 12, "fee-magnitude": 5},
	Rule: "transactions of 1-4 custom-module messages (any mix, succeeding or failing at any position), fees in {0, small, two denoms, every order of magnitude up to the balance, more than the balance}, explicit fee payers, add-record with/without a named fee payer; oracle = per-DeliverTx balance/supply diff and all-or-nothing on the three custom stores; non-trivial = a multi-message tx that failed after the ante, or an add-record with a named fee payer",
	NonTrivial: func(w *world.World) bool {
		return lab(w, "c15 multi-message tx failed after ante")+lab(w, "c15 add-record with named fee payer") > 0
	},
	Step: func(g *G, kind string) *world.Step {
		if kind != "mixed" {
			return nil
		}
		return &world.Step{Kind: "tx", Tx: g.genMixedTx()}
	},
})

var CfgC07 = reg(&MachineCfg{
	Prop: "C07",
	Setup: func(g *G, opt *world.Options) {
		// an operator may run the node with periodic invariant checks (x/crisis asserts every
		// registered invariant at the start of EndBlock, i.e. BEFORE the burn)
		if g.chance("inv-check-period", 45) {
			opt.Node = map[string]interface{}{"inv-check-period": uint(pick(g, "period", []int{1, 1, 2, 3}))}
		}
		if g.chance("bank-setup", 35) {
			opt.Bank = g.genBankSetup()
		}
	},
	Gens:       []interface{}{"burn", 44, "gov", 14, "commit", 30, "bank", 8, "aol", 3, "pnft", 3, "crash", 2, "restart", 2},
	Bias:       map[string]int{"right-signers": 95, "exec": 0, "vesting": 4},
	Rule:       "block histories in which coins of 1-3 denominations reach the burn address by send, multi-send, several transfers per block, dust/huge amounts, by creating delayed/continuous/periodic/permanently locked vesting accounts at that address and by governance proposals that pay it out of the community pool inside EndBlock, with empty blocks and unrelated traffic; oracle = spendable/supply/balance accounting across EndBlock on the deliver state plus every crisis invariant after Commit; non-trivial = the burn address was spendable at >=2 EndBlocks",
	NonTrivial: func(w *world.World) bool { return lab(w, "c07 burn address spendable at EndBlock") >= 2 },
	Step: func(g *G, kind string) *world.Step {
		switch kind {
		case "burn":
			return &world.Step{Kind: "tx", Tx: g.genBurnTx()}
		case "gov":
			return &world.Step{Kind: "tx", Tx: g.genGovTx()}
		}
		return nil
	},
})

var mixedGens = []interface{}{"aol", 22, "did", 18, "pnft", 22, "burn", 6, "bank", 4, "authz", 3, "gov", 4, "crisis", 3, "sim_aol", 2, "sim_did", 2, "sim_pnft", 2}

func withGens(extra ...interface{}) []interface{} {
	return append(append([]interface{}{}, mixedGens...), extra...)
}

var CfgC09 = reg(&MachineCfg{
	Prop: "C09", Also: agreement, Twin: true, Perturb: true,
	Setup: func(g *G, opt *world.Options) {
		// "for every genesis": generated custom-module sections that pass genesis validation
		cdc := app.MakeEncodingConfig().Codec
		if g.chance("did-genesis-mode", 30) {
			opt.DidGenesis = g.genDidGenesis(cdc, world.DIDKeys())
		}
		if g.chance("aol-genesis-mode", 20) {
			opt.AolGenesis = g.genAolGenesis(cdc, false)
		}
		if g.chance("pnft-genesis-mode", 25) {
			// every genesis InitChain accepts, also one the offline validation would refuse
			opt.PnftGenesis = g.genPnftGenesis(cdc, true)
		}
		if g.chance("twin-node-options", 60) {
			// the twin is started by another operator: node-local flags differ
			opt.TwinNode = map[string]interface{}{
				"inv-check-period":                uint(pick(g, "inv-check-period", []int{0, 1, 2, 3, 7})),
				"x-crisis-skip-assert-invariants": g.chance("skip-genesis-invariants", 50),
			}
		}
	},
	Gens: withGens("commit", 18, "export", 4, "crash", 1),
	Bias: map[string]int{"right-signers": 88, "exec": 5, "right-proof": 75, "multi": 12, "group": 8, "big-doc": 14},
	Rule: "differential twin: every committed block (all modules, failing txs, burn deposits, end-blocker activity) is executed by a second, independently constructed instance that is perturbed by CheckTx(New/Recheck), Simulate (also of later txs) and queries between deliveries, a different GOMAXPROCS and time zone, and that re-initialises from its own genesis export; compared at every height: app hash, per-tx code/codespace/data/gas/events, Begin/EndBlock events, probe-set answers; plus (TestC09Concurrent, race detector on) a replica that serves 2-12 goroutines of queries and a CheckTx/Simulate caller while it executes the blocks must reproduce the codes and app hashes of the replica that executed them alone; non-trivial = >=5 compared blocks with >=1 failing tx and >=1 perturbation",
	NonTrivial: func(w *world.World) bool {
		return lab(w, "twin block compared") >= 5 && lab(w, "tx handler")+lab(w, "tx ante") > 0 &&
			lab(w, "twin perturbed: CheckTx")+lab(w, "twin perturbed: Simulate")+lab(w, "twin perturbed: ReCheckTx") > 0
	},
	Step: burnStep,
})

var CfgC10 = reg(&MachineCfg{
	Prop: "C10", Also: agreement, Twin: true,
	Setup: func(g *G, opt *world.Options) {
		if g.chance("pnft-genesis-mode", 15) {
			opt.PnftGenesis = g.genPnftGenesis(app.MakeEncodingConfig().Codec, true)
		}
	},
	Gens:       withGens("commit", 14, "crash", 5, "crash_redeliver", 6, "crash_endblock", 3, "restart", 2, "export", 1, "gov", 6),
	Bias:       map[string]int{"right-signers": 92, "exec": 3, "right-proof": 80, "group": 8, "did-burst": 10, "gov-consensus-params": 60},
	Rule:       "histories with stop points after Commit, after BeginBlock, after any prefix of a block's txs and after EndBlock-before-Commit: the instance is abandoned and a new application is opened on the same database; oracle = height, app hash and every mounted store equal the committed snapshot, the re-delivered block reproduces its results, and every later block hash equals a twin that never stopped; non-trivial = a crash inside a block after >=1 delivered tx",
	NonTrivial: func(w *world.World) bool { return lab(w, "crash after delivered txs") > 0 },
	Step:       burnStep,
})

func burnStep(g *G, kind string) *world.Step {
	if kind != "burn" {
		return nil
	}
	return &world.Step{Kind: "tx", Tx: g.genBurnTx()}
}

// CfgC14 is the on-chain half of C14: signatures made for one transaction content, attached to
// another, presented to a node that may already have checked the genuine transaction.
var CfgC14 = reg(&MachineCfg{
	Prop: "C14", Also: agreement,
	Gens: []interface{}{"aol", 34, "did", 14, "pnft", 18, "mixed", 8, "authz", 6, "commit", 14, "bank", 2, "restart", 2},
	Bias: map[string]int{"right-signers": 94, "exec": 10, "multi": 25, "right-proof": 90, "tamper": 45, "prime-checktx": 60, "group": 6},
	Rule: "chain half of C14: signed transactions of custom-module messages whose content (one address, one field, or the structure of one message) is replaced after signing with the signatures kept, in direct and legacy amino JSON mode, bare / inside authz exec / inside a group proposal, presented to a node that in 60% of the cases has already passed the genuine transaction through CheckTx; oracle = such a transaction is never accepted, and the stores agree with the model; non-trivial = >=2 substituted transactions delivered, one of them after the genuine one passed CheckTx",
	NonTrivial: func(w *world.World) bool {
		return lab(w, "tx content replaced after signing") >= 2 && lab(w, "genuine tx passed CheckTx before its content was replaced") > 0
	},
	Step: func(g *G, kind string) *world.Step {
		if kind != "mixed" {
			return nil
		}
		return &world.Step{Kind: "tx", Tx: g.genMixedTx()}
	},
})

var CfgC16 = reg(&MachineCfg{
	Prop: "C16",
	Gens: []interface{}{"boundary", 46, "aol", 14, "did", 10, "pnft", 14, "authz", 6, "commit", 10},
	Bias: map[string]int{"right-signers": 96, "exec": 12, "right-proof": 90, "group": 10},
	Rule: "pipeline half of C16: boundary-directed messages (one field on or next to a documented limit) are sent as signed transactions, alone and wrapped in authz exec, into a populated chain; oracle = every message the independent limit oracle rejects fails and leaves the aol/did/pnft stores byte-identical, and a final scan finds every stored field within the limits; non-trivial = >=3 out-of-limits messages sent and >=1 in-limits message executed",
	NonTrivial: func(w *world.World) bool {
		return lab(w, "c16 out-of-limits message sent") >= 3 && lab(w, "c16 in-limits message executed") > 0
	},
	Final: func(w *world.World) error { return w.CheckStoredWithinLimits() },
	Step: func(g *G, kind string) *world.Step {
		if kind != "boundary" {
			return nil
		}
		m, _ := genC16Msg(g.T)
		return &world.Step{Kind: "tx", Tx: g.wrapTx([]sdk.Msg{m}, "boundary "+sdk.MsgTypeURL(m), false)}
	},
})
