package props

import (
	"os"
	"testing"

	codectypes "github.com/cosmos/cosmos-sdk/codec/types"
	sdk "github.com/cosmos/cosmos-sdk/types"
	"github.com/gogo/protobuf/proto"
	"github.com/medibloc/panacea-core/v2/app"
	"github.com/medibloc/panacea-core/v2/types/compkey"

	"verifharness/simnet"
	"verifharness/world"
)

// Native fuzz targets (thorough tier). Each target puts the semantic oracle inside the
// target and resets nothing global: the subjects are pure functions or a fresh world.

var fuzzURLs = []string{
	"/panacea.aol.v2.MsgCreateTopicRequest", "/panacea.aol.v2.MsgAddWriterRequest", "/panacea.aol.v2.MsgDeleteWriterRequest", "/panacea.aol.v2.MsgAddRecordRequest",
	"/panacea.did.v2.MsgCreateDIDRequest", "/panacea.did.v2.MsgUpdateDIDRequest", "/panacea.did.v2.MsgDeactivateDIDRequest",
	"/panacea.pnft.v2.MsgCreateDenomRequest", "/panacea.pnft.v2.MsgUpdateDenomRequest", "/panacea.pnft.v2.MsgDeleteDenomRequest", "/panacea.pnft.v2.MsgTransferDenomRequest",
	"/panacea.pnft.v2.MsgMintPNFTRequest", "/panacea.pnft.v2.MsgTransferPNFTRequest", "/panacea.pnft.v2.MsgBurnPNFTRequest",
}

// FuzzC17Msg: type selector + bytes -> Unmarshal -> ValidateBasic -> GetSigners (+ C16's iff).
func FuzzC17Msg(f *testing.F) {
	simnet.Setup()
	reg := app.MakeEncodingConfig().InterfaceRegistry
	for i := range fuzzURLs {
		bz, _ := proto.Marshal(minimalMsg(i))
		f.Add(uint8(i), bz)
		f.Add(uint8(i), []byte{})
	}
	f.Fuzz(func(t *testing.T, sel uint8, data []byte) {
		var m sdk.Msg
		if err := reg.UnpackAny(&codectypes.Any{TypeUrl: fuzzURLs[int(sel)%len(fuzzURLs)], Value: data}, &m); err != nil {
			return
		}
		if msg := checkTotalMsg(m, newPureStats("C17")); msg != "" {
			t.Fatalf("ORACLE C17: %s", msg)
		}
		if msg, _, _ := checkStateless(m); msg != "" {
			t.Fatalf("ORACLE C16: %s", msg)
		}
	})
}

var fuzzQueryPaths = []string{
	"/panacea.aol.v2.Query/Topic", "/panacea.aol.v2.Query/Topics", "/panacea.aol.v2.Query/Writer", "/panacea.aol.v2.Query/Writers", "/panacea.aol.v2.Query/Record",
	"/panacea.did.v2.Query/DID", "/panacea.pnft.v2.Query/Denoms", "/panacea.pnft.v2.Query/DenomsByOwner", "/panacea.pnft.v2.Query/Denom",
	"/panacea.pnft.v2.Query/PNFTs", "/panacea.pnft.v2.Query/PNFTsByDenomOwner", "/panacea.pnft.v2.Query/PNFT",
}

// FuzzC17Query: path selector + request bytes against a small populated chain.
func FuzzC17Query(f *testing.F) {
	w, err := world.New(world.Options{Prop: "C17"})
	if err != nil {
		f.Fatal(err)
	}
	for i := range fuzzQueryPaths {
		f.Add(uint8(i), []byte{}, int64(0))
		f.Add(uint8(i), []byte{0x0a, 0x01, 'a', 0x12, 0x01, 'b'}, int64(1))
	}
	f.Fuzz(func(t *testing.T, sel uint8, data []byte, height int64) {
		q := w.C.QueryRaw(fuzzQueryPaths[int(sel)%len(fuzzQueryPaths)], data, height%4)
		if simnet.IsPanic(q.Codespace, q.Code) {
			t.Fatalf("ORACLE C17: query %s recovered a panic: %s", fuzzQueryPaths[int(sel)%len(fuzzQueryPaths)], q.Log)
		}
	})
}

// FuzzC17KeyStore: file bytes + password through KeyStore.Load.
func FuzzC17KeyStore(f *testing.F) {
	dir := caseDir("fuzz-ks-")
	f.Cleanup(func() { os.RemoveAll(dir) })
	f.Add([]byte(`{"version":3,"id":"x","address":"a","crypto":{"cipher":"aes-128-ctr","ciphertext":"00","cipherparams":{"iv":"00000000000000000000000000000000"},"kdf":"pbkdf2","kdfparams":{"c":2,"dklen":32,"prf":"hmac-sha256","salt":"00"},"mac":"00"}}`), "pw")
	f.Add([]byte(`{"version":3,"crypto":{"cipher":"aes-128-ctr","kdf":"pbkdf2","kdfparams":{"c":1,"dklen":0,"prf":"hmac-sha256"}}}`), "")
	f.Add([]byte(`{"version":3,"crypto":{"cipher":"aes-128-ctr","kdf":"pbkdf2","kdfparams":{"c":1,"dklen":-1,"prf":"hmac-sha256"}}}`), "")
	f.Add([]byte(`{"version":3,"crypto":{"cipher":"aes-128-ctr","cipherparams":{"iv":"00"},"kdf":"pbkdf2","kdfparams":{"c":1,"dklen":31,"prf":"hmac-sha256"}}}`), "")
	f.Fuzz(func(t *testing.T, content []byte, pw string) {
		// keep the key derivation cheap: a slow KDF is not a hang
		if len(content) > 4096 || containsBigNumber(content) {
			return
		}
		if p := checkKeystoreLoad(dir, content, pw); p != "" {
			t.Fatalf("ORACLE C17: KeyStore.Load panicked: %s", p)
		}
	})
}

// containsBigNumber reports a run of more than 4 digits (c / dklen would be huge).
func containsBigNumber(b []byte) bool {
	run := 0
	for _, c := range b {
		if c >= '0' && c <= '9' {
			run++
			if run > 4 {
				return true
			}
		} else if c != '"' {
			run = 0
		}
	}
	return false
}

// FuzzC17Compkey: arbitrary bytes for the composite-key decoder (C18's decode-or-error oracle).
func FuzzC17Compkey(f *testing.F) {
	f.Add([]byte{})
	f.Add([]byte{1, 'a', 0})
	f.Add([]byte{255})
	f.Fuzz(func(t *testing.T, bz []byte) {
		if msg := checkDecodeArbitrary(bz); msg != "" {
			t.Fatalf("ORACLE C18: %s", msg)
		}
		var k rawKey
		_ = compkey.Decode(bz, &k)
	})
}
