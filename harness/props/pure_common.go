package props

import (
	"crypto/sha256"
	"encoding/hex"
	"encoding/json"
	"fmt"
	"os"
	"sort"
	"sync"
	"testing"
)

// pureStats accumulates coverage of a pure-function check inside one test process.
type pureStats struct {
	mu       sync.Mutex
	prop     string
	evals    int
	nt       int
	distinct map[string]struct{}
	labels   map[string]int
	samples  []interface{}
	extra    map[string]interface{}
}

func newPureStats(prop string) *pureStats {
	return &pureStats{prop: prop, distinct: map[string]struct{}{}, labels: map[string]int{}, extra: map[string]interface{}{}}
}

func hash8(parts ...[]byte) string {
	h := sha256.New()
	for _, p := range parts {
		h.Write([]byte{byte(len(p)), byte(len(p) >> 8)})
		h.Write(p)
	}
	return hex.EncodeToString(h.Sum(nil)[:8])
}

// add records one evaluated case. key identifies the case for distinct counting.
func (s *pureStats) add(nontrivial bool, key string, sample interface{}, labels ...string) {
	s.mu.Lock()
	defer s.mu.Unlock()
	s.evals++
	for _, l := range labels {
		s.labels[l]++
	}
	if nontrivial {
		s.nt++
		if len(s.distinct) < 3_000_000 {
			s.distinct[key] = struct{}{}
		}
		if len(s.samples) < 5 && sample != nil {
			s.samples = append(s.samples, sample)
		}
	}
}

func (s *pureStats) label(l string, n int) {
	s.mu.Lock()
	s.labels[l] += n
	s.mu.Unlock()
}

func (s *pureStats) flush() {
	s.mu.Lock()
	keys := make([]string, 0, len(s.distinct))
	for k := range s.distinct {
		keys = append(keys, k)
	}
	sort.Strings(keys)
	evals, nt, labels, samples, extra := s.evals, s.nt, s.labels, s.samples, s.extra
	s.mu.Unlock()
	writeSummary(s.prop, evals, nt, keys, labels, samples, extra)
}

// failPure writes a replay document for a pure-function violation and fails the test.
func failPure(t interface {
	Fatalf(string, ...interface{})
}, prop, kind string, input map[string]interface{}, format string, a ...interface{}) {
	msg := fmt.Sprintf(format, a...)
	if p := os.Getenv("VERIF_REPLAY_OUT"); p != "" {
		doc := map[string]interface{}{"property": prop, "kind": kind, "input": input, "violation": msg}
		bz, _ := json.MarshalIndent(doc, "", " ")
		_ = os.WriteFile(p, bz, 0o644)
	}
	t.Fatalf("ORACLE %s: %s", prop, msg)
}

// checksBudget returns the case budget handed down by the driver (plain tests).
func checksBudget(def int) int {
	var n int
	if _, err := fmt.Sscanf(os.Getenv("VERIF_CHECKS"), "%d", &n); err == nil && n > 0 {
		return n
	}
	return def
}

var _ = testing.Short
