module verifharness

go 1.23

toolchain go1.23.5

require (
	cosmossdk.io/api v0.3.1
	cosmossdk.io/errors v1.0.1
	github.com/btcsuite/btcutil v1.0.3-0.20201208143702-a53e38424cce
	github.com/cometbft/cometbft v0.37.5
	github.com/cometbft/cometbft-db v0.8.0
	github.com/cosmos/cosmos-sdk v0.47.12
	github.com/cosmos/go-bip39 v1.0.0
	github.com/cosmos/gogoproto v1.4.10
	github.com/cosmos/ibc-go/v7 v7.5.2
	github.com/gogo/protobuf v1.3.2
	github.com/golang/protobuf v1.5.4
	github.com/google/uuid v1.6.0
	github.com/grpc-ecosystem/grpc-gateway v1.16.0
	github.com/pborman/uuid v1.2.1
	github.com/pkg/errors v0.9.1
	github.com/spf13/cast v1.6.0
	github.com/spf13/cobra v1.8.0
	github.com/spf13/pflag v1.0.5
	github.com/spf13/viper v1.18.2
	github.com/stretchr/testify v1.9.0
	golang.org/x/crypto v0.21.0
	google.golang.org/genproto/googleapis/api v0.0.0-20240123012728-ef4313101c80
	google.golang.org/grpc v1.62.1
	google.golang.org/protobuf v1.33.0
)

require (
	cloud.google.com/go v0.112.0 // indirect
	cloud.google.com/go/compute v1.23.3 // indirect
	cloud.google.com/go/compute/metadata v0.2.3 // indirect
	cloud.google.com/go/iam v1.1.5 // indirect
	cloud.google.com/go/storage v1.36.0 // indirect
	cosmossdk.io/core v0.5.1 // indirect
	cosmossdk.io/depinject v1.0.0-alpha.4 // indirect
	cosmossdk.io/log v1.3.1 // indirect
	cosmossdk.io/math v1.3.0 // indirect
	cosmossdk.io/tools/rosetta v0.2.1 // indirect
	filippo.io/edwards25519 v1.0.0 // indirect
	github.com/99designs/go-keychain v0.0.0-20191008050251-8e49817e8af4 // indirect
	github.com/99designs/keyring v1.2.1 // indirect
	github.com/ChainSafe/go-schnorrkel v1.0.0 // indirect
	github.com/armon/go-metrics v0.4.1 // indirect
	github.com/aws/aws-sdk-go v1.44.203 // indirect
	github.com/beorn7/perks v1.0.1 // indirect
	github.com/bgentry/go-netrc v0.0.0-20140422174119-9fd32a8b3d3d // indirect
	github.com/bgentry/speakeasy v0.1.1-0.20220910012023-760eaf8b6816 // indirect
	github.com/btcsuite/btcd/btcec/v2 v2.3.2 // indirect
	github.com/cenkalti/backoff/v4 v4.1.3 // indirect
	github.com/cespare/xxhash v1.1.0 // indirect
	github.com/cespare/xxhash/v2 v2.2.0 // indirect
	github.com/chzyer/readline v1.5.1 // indirect
	github.com/cockroachdb/apd/v2 v2.0.2 // indirect
	github.com/cockroachdb/errors v1.10.0 // indirect
	github.com/cockroachdb/logtags v0.0.0-20230118201751-21c54148d20b // indirect
	github.com/cockroachdb/redact v1.1.5 // indirect
	github.com/coinbase/rosetta-sdk-go v0.7.9 // indirect
	github.com/confio/ics23/go v0.9.0 // indirect
	github.com/cosmos/btcutil v1.0.5 // indirect
	github.com/cosmos/cosmos-proto v1.0.0-beta.5 // indirect
	github.com/cosmos/gogogateway v1.2.0 // indirect
	github.com/cosmos/iavl v0.20.1 // indirect
	github.com/cosmos/ics23/go v0.10.0 // indirect
	github.com/cosmos/ledger-cosmos-go v0.12.4 // indirect
	github.com/cosmos/rosetta-sdk-go v0.10.0 // indirect
	github.com/creachadair/taskgroup v0.4.2 // indirect
	github.com/danieljoos/wincred v1.1.2 // indirect
	github.com/davecgh/go-spew v1.1.2-0.20180830191138-d8f796af33cc // indirect
	github.com/decred/dcrd/dcrec/secp256k1/v4 v4.1.0 // indirect
	github.com/desertbit/timer v0.0.0-20180107155436-c41aec40b27f // indirect
	github.com/dgraph-io/badger/v2 v2.2007.4 // indirect
	github.com/dgraph-io/ristretto v0.1.1 // indirect
	github.com/dgryski/go-farm v0.0.0-20200201041132-a6ae2369ad13 // indirect
	github.com/dustin/go-humanize v1.0.1 // indirect
	github.com/dvsekhvalnov/jose2go v1.6.0 // indirect
	github.com/felixge/httpsnoop v1.0.4 // indirect
	github.com/fsnotify/fsnotify v1.7.0 // indirect
	github.com/getsentry/sentry-go v0.23.0 // indirect
	github.com/go-kit/kit v0.12.0 // indirect
	github.com/go-kit/log v0.2.1 // indirect
	github.com/go-logfmt/logfmt v0.6.0 // indirect
	github.com/go-logr/logr v1.3.0 // indirect
	github.com/go-logr/stdr v1.2.2 // indirect
	github.com/godbus/dbus v0.0.0-20190726142602-4481cbc300e2 // indirect
	github.com/gogo/googleapis v1.4.1 // indirect
	github.com/golang/glog v1.2.0 // indirect
	github.com/golang/groupcache v0.0.0-20210331224755-41bb18bfe9da // indirect
	github.com/golang/mock v1.6.0 // indirect
	github.com/golang/snappy v0.0.4 // indirect
	github.com/google/btree v1.1.2 // indirect
	github.com/google/go-cmp v0.6.0 // indirect
	github.com/google/orderedcode v0.0.1 // indirect
	github.com/google/s2a-go v0.1.7 // indirect
	github.com/googleapis/enterprise-certificate-proxy v0.3.2 // indirect
	github.com/googleapis/gax-go/v2 v2.12.0 // indirect
	github.com/gorilla/handlers v1.5.1 // indirect
	github.com/gorilla/mux v1.8.0 // indirect
	github.com/gorilla/websocket v1.5.0 // indirect
	github.com/grpc-ecosystem/go-grpc-middleware v1.3.0 // indirect
	github.com/gsterjov/go-libsecret v0.0.0-20161001094733-a6f4afe4910c // indirect
	github.com/gtank/merlin v0.1.1 // indirect
	github.com/gtank/ristretto255 v0.1.2 // indirect
	github.com/hashicorp/go-cleanhttp v0.5.2 // indirect
	github.com/hashicorp/go-getter v1.7.1 // indirect
	github.com/hashicorp/go-immutable-radix v1.3.1 // indirect
	github.com/hashicorp/go-safetemp v1.0.0 // indirect
	github.com/hashicorp/go-version v1.6.0 // indirect
	github.com/hashicorp/golang-lru v0.5.5-0.20210104140557-80c98217689d // indirect
	github.com/hashicorp/hcl v1.0.0 // indirect
	github.com/hdevalence/ed25519consensus v0.1.0 // indirect
	github.com/huandu/skiplist v1.2.0 // indirect
	github.com/improbable-eng/grpc-web v0.15.0 // indirect
	github.com/inconshreveable/mousetrap v1.1.0 // indirect
	github.com/jmespath/go-jmespath v0.4.0 // indirect
	github.com/jmhodges/levigo v1.0.0 // indirect
	github.com/klauspost/compress v1.17.0 // indirect
	github.com/kr/pretty v0.3.1 // indirect
	github.com/kr/text v0.2.0 // indirect
	github.com/lib/pq v1.10.7 // indirect
	github.com/libp2p/go-buffer-pool v0.1.0 // indirect
	github.com/linxGnu/grocksdb v1.7.16 // indirect
	github.com/magiconair/properties v1.8.7 // indirect
	github.com/manifoldco/promptui v0.9.0 // indirect
	github.com/mattn/go-colorable v0.1.13 // indirect
	github.com/mattn/go-isatty v0.0.20 // indirect
	github.com/matttproud/golang_protobuf_extensions v1.0.4 // indirect
	github.com/mimoo/StrobeGo v0.0.0-20210601165009-122bf33a46e0 // indirect
	github.com/minio/highwayhash v1.0.2 // indirect
	github.com/mitchellh/go-homedir v1.1.0 // indirect
	github.com/mitchellh/go-testing-interface v1.14.1 // indirect
	github.com/mitchellh/mapstructure v1.5.0 // indirect
	github.com/mtibben/percent v0.2.1 // indirect
	github.com/pelletier/go-toml/v2 v2.1.0 // indirect
	github.com/petermattis/goid v0.0.0-20230317030725-371a4b8eda08 // indirect
	github.com/pmezard/go-difflib v1.0.1-0.20181226105442-5d4384ee4fb2 // indirect
	github.com/prometheus/client_golang v1.14.0 // indirect
	github.com/prometheus/client_model v0.3.0 // indirect
	github.com/prometheus/common v0.42.0 // indirect
	github.com/prometheus/procfs v0.9.0 // indirect
	github.com/rakyll/statik v0.1.7 // indirect
	github.com/rcrowley/go-metrics v0.0.0-20201227073835-cf1acfcdf475 // indirect
	github.com/rogpeppe/go-internal v1.11.0 // indirect
	github.com/rs/cors v1.8.3 // indirect
	github.com/rs/zerolog v1.32.0 // indirect
	github.com/sagikazarmark/locafero v0.4.0 // indirect
	github.com/sagikazarmark/slog-shim v0.1.0 // indirect
	github.com/sasha-s/go-deadlock v0.3.1 // indirect
	github.com/sourcegraph/conc v0.3.0 // indirect
	github.com/spf13/afero v1.11.0 // indirect
	github.com/subosito/gotenv v1.6.0 // indirect
	github.com/syndtr/goleveldb v1.0.1-0.20220721030215-126854af5e6d // indirect
	github.com/tendermint/go-amino v0.16.0 // indirect
	github.com/tidwall/btree v1.6.0 // indirect
	github.com/ulikunitz/xz v0.5.11 // indirect
	github.com/zondax/hid v0.9.2 // indirect
	github.com/zondax/ledger-go v0.14.3 // indirect
	go.etcd.io/bbolt v1.3.7 // indirect
	go.opencensus.io v0.24.0 // indirect
	go.opentelemetry.io/contrib/instrumentation/google.golang.org/grpc/otelgrpc v0.46.1 // indirect
	go.opentelemetry.io/contrib/instrumentation/net/http/otelhttp v0.46.1 // indirect
	go.opentelemetry.io/otel v1.21.0 // indirect
	go.opentelemetry.io/otel/metric v1.21.0 // indirect
	go.opentelemetry.io/otel/trace v1.21.0 // indirect
	go.uber.org/atomic v1.10.0 // indirect
	go.uber.org/multierr v1.9.0 // indirect
	golang.org/x/exp v0.0.0-20230905200255-921286631fa9 // indirect
	golang.org/x/net v0.23.0 // indirect
	golang.org/x/oauth2 v0.16.0 // indirect
	golang.org/x/sync v0.6.0 // indirect
	golang.org/x/sys v0.18.0 // indirect
	golang.org/x/term v0.18.0 // indirect
	golang.org/x/text v0.14.0 // indirect
	golang.org/x/time v0.5.0 // indirect
	google.golang.org/api v0.155.0 // indirect
	google.golang.org/appengine v1.6.8 // indirect
	google.golang.org/genproto v0.0.0-20240123012728-ef4313101c80 // indirect
	google.golang.org/genproto/googleapis/rpc v0.0.0-20240123012728-ef4313101c80 // indirect
	gopkg.in/ini.v1 v1.67.0 // indirect
	gopkg.in/yaml.v3 v3.0.1 // indirect
	nhooyr.io/websocket v1.8.6 // indirect
	sigs.k8s.io/yaml v1.4.0 // indirect
)

replace (
	// use cosmos fork of keyring
	github.com/99designs/keyring => github.com/cosmos/keyring v1.2.0

	github.com/cosmos/ledger-cosmos-go => github.com/cosmos/ledger-cosmos-go v0.12.4
	// dgrijalva/jwt-go is deprecated and doesn't receive security updates.
	// TODO: remove it: https://github.com/cosmos/cosmos-sdk/issues/13134
	github.com/dgrijalva/jwt-go => github.com/golang-jwt/jwt/v4 v4.4.2
	// Fix upstream GHSA-h395-qcrw-5vmq and GHSA-3vp4-m3rf-835h vulnerabilities.
	// TODO Remove it: https://github.com/cosmos/cosmos-sdk/issues/10409
	github.com/gin-gonic/gin => github.com/gin-gonic/gin v1.9.0
	// replace broken goleveldb
	github.com/syndtr/goleveldb => github.com/syndtr/goleveldb v1.0.1-0.20210819022825-2ae1ddf74ef7
	// stick with compatible version or x/exp in v0.47.x line
	golang.org/x/exp => golang.org/x/exp v0.0.0-20230711153332-06a737ee72cb
// stick with compatible version of rapid in v0.47.x line
)

require github.com/medibloc/panacea-core/v2 v2.0.0-00010101000000-000000000000

require pgregory.net/rapid v1.3.0

replace github.com/medibloc/panacea-core/v2 => /repo
