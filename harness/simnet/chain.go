package simnet

import (
	"encoding/json"
	"fmt"
	"os"
	"path/filepath"
	"sort"
	"sync"
	"time"

	dbm "github.com/cometbft/cometbft-db"
	abci "github.com/cometbft/cometbft/abci/types"
	"github.com/cometbft/cometbft/crypto/ed25519"
	"github.com/cometbft/cometbft/libs/log"
	tmproto "github.com/cometbft/cometbft/proto/tendermint/types"
	tmtypes "github.com/cometbft/cometbft/types"
	"github.com/cosmos/cosmos-sdk/baseapp"
	"github.com/cosmos/cosmos-sdk/client/flags"
	"github.com/cosmos/cosmos-sdk/crypto/keys/secp256k1"
	"github.com/cosmos/cosmos-sdk/testutil/sims"
	sdk "github.com/cosmos/cosmos-sdk/types"
	authtypes "github.com/cosmos/cosmos-sdk/x/auth/types"
	banktypes "github.com/cosmos/cosmos-sdk/x/bank/types"
	govtypes "github.com/cosmos/cosmos-sdk/x/gov/types"
	govv1 "github.com/cosmos/cosmos-sdk/x/gov/types/v1"
	slashingtypes "github.com/cosmos/cosmos-sdk/x/slashing/types"

	"github.com/medibloc/panacea-core/v2/app"
)

const (
	ChainID  = "verif-1"
	FeeDenom = "umed"
	// BondDenom is the SDK default used by the default staking/mint genesis.
	BondDenom  = "stake"
	ThirdDenom = "uthird"
	// HugeDenom is held in amounts far above 2^63 (like an 18-decimals voucher).
	HugeDenom = "ahuge"
)

var cfgOnce sync.Once

// Setup seals the bech32 configuration ("panacea" prefixes). Idempotent.
func Setup() {
	cfgOnce.Do(func() {
		defer func() { _ = recover() }() // already sealed by another importer
		app.SetConfig()
	})
}

func init() { Setup() }

// Account is a deterministic key pair the harness can sign with.
type Account struct {
	Name string
	Priv *secp256k1.PrivKey
	Addr sdk.AccAddress
	Bech string
}

// NewAccount derives an account from a fixed secret (no OS entropy).
func NewAccount(name string) Account {
	priv := secp256k1.GenPrivKeyFromSecret([]byte("verif-account-" + name))
	addr := sdk.AccAddress(priv.PubKey().Address())
	return Account{Name: name, Priv: priv, Addr: addr, Bech: addr.String()}
}

// GovVotingPeriod is the governance voting period of every generated genesis.
const GovVotingPeriod = 50000 * time.Second

// GenesisTime is the fixed chain start; header times are derived from it.
var GenesisTime = time.Date(2024, 1, 1, 0, 0, 0, 0, time.UTC)

// Chain is one application instance over a database plus the ABCI driver state.
type Chain struct {
	App      *app.App
	DB       dbm.DB
	Home     string
	Accounts []Account

	Height  int64     // last committed height
	Time    time.Time // time of last committed block (or genesis time)
	Hdr     tmproto.Header
	InBlock bool

	// Previous selects the emulated previous release when the app is (re)constructed.
	Previous bool
	// Node holds the node-local start-up options of this instance.
	Node NodeOpts
	// ReopenDB, when set, re-opens the on-disk database on every Reopen.
	ReopenDB func() (dbm.DB, error)

	ValPriv   ed25519.PrivKey
	valAddr   []byte
	AppHashes map[int64][]byte
}

// Options for building an application instance.
type Options struct {
	DB   dbm.DB
	Home string
	// Upgrades, when non-nil, temporarily replaces app.Upgrades during construction
	// (used to emulate a previous binary that lacks the newest handler).
	Upgrades    func()
	PostUpgrade func()
	Logger      log.Logger
}

var appBuildMu sync.Mutex

// NewApp constructs the real application (loadLatest=false, then LoadLatestVersion so
// that a load failure is an error rather than os.Exit).
func NewApp(db dbm.DB, home string) (*app.App, error) { return NewAppBinary(db, home, false) }

// NodeOpts are node-local start-up options (flags / app.toml entries an operator chooses):
// none of them may influence consensus state or results.
type NodeOpts map[string]interface{}

// NewAppBinary constructs the application; with previous=true it emulates the previous
// release: the same code with the newest upgrade descriptor (and hence its handler) absent.
func NewAppBinary(db dbm.DB, home string, previous bool, node ...NodeOpts) (a *app.App, err error) {
	Setup()
	if home == "" {
		home = defaultHome()
	}
	opts := sims.AppOptionsMap{flags.FlagHome: home}
	for _, n := range node {
		for k, v := range n {
			opts[k] = v
		}
	}
	appBuildMu.Lock()
	saved := app.Upgrades
	// whatever the constructor does (including a panic under a changed tree), the descriptor
	// list is restored and the lock released; a panic is reported as an error
	defer func() {
		app.Upgrades = saved
		appBuildMu.Unlock()
		if r := recover(); r != nil {
			a, err = nil, fmt.Errorf("PANIC while constructing the application: %v", r)
		}
	}()
	if previous {
		app.Upgrades = saved[:len(saved)-1]
	}
	// Real nodes construct the application with loadLatest=true (which also runs whatever the
	// constructor does after loading). A load failure there calls os.Exit, so when an upgrade
	// store loader is about to run (upgrade-info.json present) the load is first tried on a
	// throw-away instance that reports the error instead.
	if _, serr := os.Stat(filepath.Join(home, "data", "upgrade-info.json")); serr == nil {
		var probe *app.App
		func() {
			// a constructor that cannot run without loaded stores is not probed
			defer func() { _ = recover() }()
			probe = app.New(log.NewNopLogger(), db, nil, false, opts, baseapp.SetChainID(ChainID))
		}()
		if probe != nil {
			if lerr := probe.LoadLatestVersion(); lerr != nil {
				return nil, lerr
			}
		}
	}
	a = app.New(log.NewNopLogger(), db, nil, true, opts, baseapp.SetChainID(ChainID))
	return a, nil
}

var homeOnce sync.Once
var homeDir string

// defaultHome is a process-wide empty directory (no upgrade-info.json in it).
func defaultHome() string {
	homeOnce.Do(func() {
		base := os.Getenv("VERIF_WORK")
		if base == "" {
			base = os.TempDir()
		}
		d, err := os.MkdirTemp(base, "home-")
		if err != nil {
			panic(err)
		}
		homeDir = d
	})
	return homeDir
}

// DefaultAccounts returns n deterministic accounts a0..a(n-1).
func DefaultAccounts(n int) []Account {
	accs := make([]Account, n)
	for i := range accs {
		accs[i] = NewAccount(fmt.Sprintf("a%d", i))
	}
	return accs
}

// GenesisOptions customise the generated genesis.
type GenesisOptions struct {
	Accounts []Account
	Balance  sdk.Coins // per account
	// Previous builds the chain on the emulated previous release.
	Previous bool
	// Node: node-local start-up options of the instance.
	Node NodeOpts
	// Mutate may edit the module genesis map (e.g. to inject custom-module state).
	Mutate func(cdcJSON func(interface{}) []byte, gs map[string]json.RawMessage)
}

// DefaultBalance funds every account in three denominations.
func DefaultBalance() sdk.Coins {
	many := sdk.NewCoins()
	for i := 0; i < ManyDenoms; i++ {
		many = many.Add(sdk.NewInt64Coin(fmt.Sprintf("v%02d", i), 1_000_000_000))
	}
	return many.Add(sdk.NewCoins(
		sdk.NewInt64Coin(FeeDenom, 1_000_000_000_000),
		sdk.NewInt64Coin(BondDenom, 1_000_000_000_000),
		sdk.NewInt64Coin(ThirdDenom, 1_000_000_000),
		sdk.NewCoin(HugeDenom, sdk.NewIntFromUint64(1_000_000_000_000_000_000).MulRaw(1_000_000_000_000_000_000)),
	)...)
}

// ManyDenoms further denominations v00.. are held by every account (IBC-voucher-like variety).
const ManyDenoms = 32

// NewChain builds an app on db and initialises it from a generated genesis.
func NewChain(db dbm.DB, home string, gopts GenesisOptions) (*Chain, error) {
	a, err := NewAppBinary(db, home, gopts.Previous, gopts.Node)
	if err != nil {
		return nil, err
	}
	c := &Chain{App: a, DB: db, Home: home, Accounts: gopts.Accounts, AppHashes: map[int64][]byte{}, Previous: gopts.Previous, Node: gopts.Node}
	c.ValPriv = ed25519.GenPrivKeyFromSecret([]byte("verif-validator"))
	gs, err := c.buildGenesis(gopts)
	if err != nil {
		return nil, err
	}
	if err := c.InitChain(gs); err != nil {
		return nil, err
	}
	return c, nil
}

func (c *Chain) valSet() *tmtypes.ValidatorSet {
	v := tmtypes.NewValidator(c.ValPriv.PubKey(), 1)
	c.valAddr = v.Address
	return tmtypes.NewValidatorSet([]*tmtypes.Validator{v})
}

func (c *Chain) buildGenesis(gopts GenesisOptions) ([]byte, error) {
	cdc := c.App.AppCodec()
	gs := app.ModuleBasics.DefaultGenesis(cdc)
	bal := gopts.Balance
	if bal == nil {
		bal = DefaultBalance()
	}
	var genAccs []authtypes.GenesisAccount
	var balances []banktypes.Balance
	for i, acc := range gopts.Accounts {
		genAccs = append(genAccs, authtypes.NewBaseAccount(acc.Addr, nil, uint64(i), 0))
		balances = append(balances, banktypes.Balance{Address: acc.Bech, Coins: bal})
	}
	gs, err := sims.GenesisStateWithValSet(cdc, gs, c.valSet(), genAccs, balances...)
	if err != nil {
		return nil, err
	}
	// the validator is injected directly (no staking hooks run), so give it signing info
	cons := sdk.ConsAddress(c.valAddr)
	sl := slashingtypes.DefaultGenesisState()
	sl.SigningInfos = []slashingtypes.SigningInfo{{Address: cons.String(),
		ValidatorSigningInfo: slashingtypes.NewValidatorSigningInfo(cons, 0, 0, time.Unix(0, 0).UTC(), false, 0)}}
	gs[slashingtypes.ModuleName] = cdc.MustMarshalJSON(sl)
	// a voting period that generated block-time steps (up to 100000 s) can cross
	gv := govv1.DefaultGenesisState()
	vp := GovVotingPeriod
	gv.Params.VotingPeriod = &vp
	gs[govtypes.ModuleName] = cdc.MustMarshalJSON(gv)
	if gopts.Mutate != nil {
		gopts.Mutate(func(v interface{}) []byte {
			bz, err := json.Marshal(v)
			if err != nil {
				panic(err)
			}
			return bz
		}, gs)
	}
	return json.Marshal(gs)
}

// ConsensusParams used for every chain: no block gas limit.
func ConsensusParams() *tmproto.ConsensusParams {
	return &tmproto.ConsensusParams{
		Block:     &tmproto.BlockParams{MaxBytes: 22020096, MaxGas: -1},
		Evidence:  &tmproto.EvidenceParams{MaxAgeNumBlocks: 302400, MaxAgeDuration: 504 * time.Hour, MaxBytes: 10000},
		Validator: &tmproto.ValidatorParams{PubKeyTypes: []string{tmtypes.ABCIPubKeyTypeEd25519}},
	}
}

// InitChain runs InitChain+Commit with the given app state. Panics are returned as errors.
func (c *Chain) InitChain(appState []byte) (err error) {
	defer func() {
		if r := recover(); r != nil {
			err = fmt.Errorf("PANIC in InitChain: %v", r)
		}
	}()
	if c.valAddr == nil {
		c.valSet()
	}
	c.App.InitChain(abci.RequestInitChain{
		ChainId:         ChainID,
		Time:            GenesisTime,
		ConsensusParams: ConsensusParams(),
		Validators:      []abci.ValidatorUpdate{},
		AppStateBytes:   appState,
		InitialHeight:   1,
	})
	c.App.Commit()
	c.Height = c.App.LastBlockHeight()
	c.Time = GenesisTime
	c.AppHashes[c.Height] = c.App.LastCommitID().Hash
	return nil
}

// Reopen abandons the running instance (uncommitted work is lost) and constructs a new
// application over the same database, as a restarted node would.
func (c *Chain) Reopen() error {
	if c.ReopenDB != nil {
		// a real restart: the database handle is closed and opened again from disk
		_ = c.DB.Close()
		db, err := c.ReopenDB()
		if err != nil {
			return err
		}
		c.DB = db
	}
	a, err := NewAppBinary(c.DB, c.Home, c.Previous, c.Node)
	if err != nil {
		return err
	}
	c.App = a
	c.InBlock = false
	c.Height = a.LastBlockHeight()
	return nil
}

// BeginBlock starts block Height+1 at Time+dt.
func (c *Chain) BeginBlock(dt time.Duration) (res abci.ResponseBeginBlock, err error) {
	defer func() {
		if r := recover(); r != nil {
			err = fmt.Errorf("PANIC in BeginBlock: %v", r)
		}
	}()
	if c.valAddr == nil {
		c.valSet()
	}
	c.Hdr = tmproto.Header{
		ChainID:         ChainID,
		Height:          c.Height + 1,
		Time:            c.Time.Add(dt),
		ProposerAddress: c.valAddr,
		AppHash:         c.App.LastCommitID().Hash,
	}
	res = c.App.BeginBlock(abci.RequestBeginBlock{
		Header: c.Hdr,
		LastCommitInfo: abci.CommitInfo{Votes: []abci.VoteInfo{{
			Validator:       abci.Validator{Address: c.valAddr, Power: 1},
			SignedLastBlock: true,
		}}},
	})
	c.InBlock = true
	return res, nil
}

// PanicCode / PanicCodespace are what baseapp returns for a recovered panic.
const (
	PanicCode      = 111222
	PanicCodespace = "undefined"
)

// IsPanic reports whether a (codespace, code) pair is baseapp's recovered-panic error.
func IsPanic(codespace string, code uint32) bool {
	return code == PanicCode && codespace == PanicCodespace
}

// DeliverTx delivers raw tx bytes.
func (c *Chain) DeliverTx(tx []byte) abci.ResponseDeliverTx {
	return c.App.DeliverTx(abci.RequestDeliverTx{Tx: tx})
}

// EndBlock ends the current block.
func (c *Chain) EndBlock() (res abci.ResponseEndBlock, err error) {
	defer func() {
		if r := recover(); r != nil {
			err = fmt.Errorf("PANIC in EndBlock: %v", r)
		}
	}()
	res = c.App.EndBlock(abci.RequestEndBlock{Height: c.Hdr.Height})
	return res, nil
}

// Commit commits the current block.
func (c *Chain) Commit() (err error) {
	defer func() {
		if r := recover(); r != nil {
			err = fmt.Errorf("PANIC in Commit: %v", r)
		}
	}()
	c.App.Commit()
	c.InBlock = false
	c.Height = c.Hdr.Height
	c.Time = c.Hdr.Time
	c.AppHashes[c.Height] = c.App.LastCommitID().Hash
	return nil
}

// DeliverCtx returns a context over the deliver-state branch (only valid inside a block).
func (c *Chain) DeliverCtx() sdk.Context {
	return c.App.BaseApp.NewContext(false, c.Hdr)
}

// CommittedCtx returns a read-only context at the last committed height.
func (c *Chain) CommittedCtx() sdk.Context {
	ctx, err := c.App.CreateQueryContext(0, false)
	if err != nil {
		panic(err)
	}
	return ctx
}

// Ctx returns the deliver context inside a block, else the committed one.
func (c *Chain) Ctx() sdk.Context {
	if c.InBlock {
		return c.DeliverCtx()
	}
	return c.CommittedCtx()
}

// KV is one raw store entry.
type KV struct{ K, V []byte }

// DumpStore returns all entries of the named KV store in key order.
func (c *Chain) DumpStore(ctx sdk.Context, name string) []KV {
	key := c.App.GetKey(name)
	if key == nil {
		panic("no store " + name)
	}
	st := ctx.KVStore(key)
	it := st.Iterator(nil, nil)
	defer it.Close()
	var out []KV
	for ; it.Valid(); it.Next() {
		out = append(out, KV{append([]byte{}, it.Key()...), append([]byte{}, it.Value()...)})
	}
	return out
}

// DumpPrefix returns all entries under a key prefix.
func (c *Chain) DumpPrefix(ctx sdk.Context, name string, prefix []byte) []KV {
	var out []KV
	for _, kv := range c.DumpStore(ctx, name) {
		if len(kv.K) >= len(prefix) && string(kv.K[:len(prefix)]) == string(prefix) {
			out = append(out, kv)
		}
	}
	return out
}

// EqualDump compares two dumps.
func EqualDump(a, b []KV) bool {
	if len(a) != len(b) {
		return false
	}
	for i := range a {
		if string(a[i].K) != string(b[i].K) || string(a[i].V) != string(b[i].V) {
			return false
		}
	}
	return true
}

// DiffDump lists keys added, removed and changed from a to b.
func DiffDump(a, b []KV) (added, removed, changed []KV) {
	am := map[string][]byte{}
	for _, kv := range a {
		am[string(kv.K)] = kv.V
	}
	bm := map[string][]byte{}
	for _, kv := range b {
		bm[string(kv.K)] = kv.V
		if v, ok := am[string(kv.K)]; !ok {
			added = append(added, kv)
		} else if string(v) != string(kv.V) {
			changed = append(changed, kv)
		}
	}
	for _, kv := range a {
		if _, ok := bm[string(kv.K)]; !ok {
			removed = append(removed, kv)
		}
	}
	return
}

// Query runs an ABCI gRPC-route query. height 0 = latest.
func (c *Chain) Query(path string, req interface{ Marshal() ([]byte, error) }, height int64) abci.ResponseQuery {
	bz, err := req.Marshal()
	if err != nil {
		panic(err)
	}
	return c.App.Query(abci.RequestQuery{Path: path, Data: bz, Height: height})
}

// QueryRaw runs an ABCI query with raw request bytes.
func (c *Chain) QueryRaw(path string, data []byte, height int64) abci.ResponseQuery {
	return c.App.Query(abci.RequestQuery{Path: path, Data: data, Height: height})
}

// Balances returns every (address, coins) pair from the bank store in the given context.
func (c *Chain) Balances(ctx sdk.Context) map[string]sdk.Coins {
	out := map[string]sdk.Coins{}
	c.App.BankKeeper.IterateAllBalances(ctx, func(addr sdk.AccAddress, coin sdk.Coin) bool {
		out[addr.String()] = out[addr.String()].Add(coin)
		return false
	})
	return out
}

// Supply returns the total supply in the given context.
func (c *Chain) Supply(ctx sdk.Context) sdk.Coins {
	var out sdk.Coins
	c.App.BankKeeper.IterateTotalSupply(ctx, func(coin sdk.Coin) bool {
		out = out.Add(coin)
		return false
	})
	return out
}

// AccountInfo returns (account number, sequence, exists).
func (c *Chain) AccountInfo(ctx sdk.Context, addr sdk.AccAddress) (uint64, uint64, bool) {
	acc := c.App.AccountKeeper.GetAccount(ctx, addr)
	if acc == nil {
		return 0, 0, false
	}
	return acc.GetAccountNumber(), acc.GetSequence(), true
}

// SortedKeys is a helper for deterministic iteration over string-keyed maps.
func SortedKeys[V any](m map[string]V) []string {
	ks := make([]string, 0, len(m))
	for k := range m {
		ks = append(ks, k)
	}
	sort.Strings(ks)
	return ks
}

// Export exports the application state as a genesis (must be called between blocks).
func (c *Chain) Export() (appState []byte, err error) { return c.ExportMode(false) }

// ExportMode exports like `panacead export` (forZeroHeight=false) or like
// `panacead export --for-zero-height`.
func (c *Chain) ExportMode(forZeroHeight bool) (appState []byte, err error) {
	defer func() {
		if r := recover(); r != nil {
			err = fmt.Errorf("PANIC in export: %v", r)
		}
	}()
	exp, err := c.App.ExportAppStateAndValidators(forZeroHeight, nil, nil)
	if err != nil {
		return nil, err
	}
	return exp.AppState, nil
}

// NewChainFromGenesis builds a fresh app on a new MemDB and initialises it from appState.
func NewChainFromGenesis(appState []byte, accounts []Account) (*Chain, error) {
	db := dbm.NewMemDB()
	a, err := NewApp(db, "")
	if err != nil {
		return nil, err
	}
	c := &Chain{App: a, DB: db, Accounts: accounts, AppHashes: map[int64][]byte{}}
	c.ValPriv = ed25519.GenPrivKeyFromSecret([]byte("verif-validator"))
	c.valSet()
	if err := c.InitChain(appState); err != nil {
		return nil, err
	}
	return c, nil
}
