// Package simnet drives the real panacea-core application in-process.
package simnet
