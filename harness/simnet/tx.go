package simnet

import (
	"fmt"

	"github.com/cosmos/cosmos-sdk/client"
	cryptotypes "github.com/cosmos/cosmos-sdk/crypto/types"
	sdk "github.com/cosmos/cosmos-sdk/types"
	txtypes "github.com/cosmos/cosmos-sdk/types/tx"
	"github.com/cosmos/cosmos-sdk/types/tx/signing"
	authsigning "github.com/cosmos/cosmos-sdk/x/auth/signing"
)

// Sign modes (short names used in specs).
const (
	ModeDirect = "direct"
	ModeAmino  = "amino"
	ModeAux    = "aux"
)

func signMode(m string) signing.SignMode {
	switch m {
	case ModeAmino:
		return signing.SignMode_SIGN_MODE_LEGACY_AMINO_JSON
	case ModeAux:
		return signing.SignMode_SIGN_MODE_DIRECT_AUX
	default:
		return signing.SignMode_SIGN_MODE_DIRECT
	}
}

// SignerSpec is one signature slot: which harness account signs, how, and with which
// sequence offset relative to the account's current sequence.
type SignerSpec struct {
	Acct   int    `json:"acct"`
	Mode   string `json:"mode,omitempty"`
	SeqOff int64  `json:"seq_off,omitempty"`
	// Garbage replaces the signature by fixed junk bytes.
	Garbage bool `json:"garbage,omitempty"`
}

// TxSpec is a transaction as pure data.
type TxSpec struct {
	Msgs []sdk.Msg `json:"-"`
	// SignedMsgs, when set, are the messages the signatures are made over; the transaction
	// that is encoded carries Msgs with those signatures (content replaced after signing).
	SignedMsgs []sdk.Msg    `json:"-"`
	Signers    []SignerSpec `json:"signers"`
	Fee        sdk.Coins    `json:"fee,omitempty"`
	FeePayer   string       `json:"fee_payer,omitempty"`
	Gas        uint64       `json:"gas,omitempty"`
	Memo       string       `json:"memo,omitempty"`
	Timeout    uint64       `json:"timeout,omitempty"`
	// FeeGranter names the account whose fee allowance is to be used (AuthInfo.fee.granter).
	FeeGranter string `json:"fee_granter,omitempty"`
	// TipFrom / TipAmount set the optional AuthInfo.tip field (tipper address, amount).
	TipFrom   string    `json:"tip_from,omitempty"`
	TipAmount sdk.Coins `json:"tip_amount,omitempty"`
}

// DefaultGas is ample for every custom message (a 5000-byte record costs ~200k).
const DefaultGas = 5_000_000

// BuildTx signs spec with the harness accounts and returns the raw bytes. The signer set
// is exactly spec.Signers: it is NOT derived from the messages.
func (c *Chain) BuildTx(spec TxSpec) (raw []byte, err error) {
	defer func() {
		if r := recover(); r != nil {
			err = fmt.Errorf("build tx: %v", r)
		}
	}()
	txc := c.App.TxConfig()
	b := txc.NewTxBuilder()
	signed := spec.Msgs
	if len(spec.SignedMsgs) > 0 {
		signed = spec.SignedMsgs
	}
	if err := b.SetMsgs(signed...); err != nil {
		return nil, err
	}
	gas := spec.Gas
	if gas == 0 {
		gas = DefaultGas
	}
	b.SetGasLimit(gas)
	b.SetFeeAmount(spec.Fee)
	b.SetMemo(spec.Memo)
	b.SetTimeoutHeight(spec.Timeout)
	if spec.FeeGranter != "" {
		fg, err := sdk.AccAddressFromBech32(spec.FeeGranter)
		if err != nil {
			return nil, err
		}
		b.SetFeeGranter(fg)
	}
	if spec.TipFrom != "" {
		b.SetTip(&txtypes.Tip{Tipper: spec.TipFrom, Amount: spec.TipAmount})
	}
	if spec.FeePayer != "" {
		fp, err := sdk.AccAddressFromBech32(spec.FeePayer)
		if err != nil {
			return nil, err
		}
		b.SetFeePayer(fp)
	}
	ctx := c.Ctx()
	type slot struct {
		pub  cryptotypes.PubKey
		priv cryptotypes.PrivKey
		num  uint64
		seq  uint64
		mode signing.SignMode
		addr sdk.AccAddress
	}
	slots := make([]slot, len(spec.Signers))
	sigs := make([]signing.SignatureV2, len(spec.Signers))
	for i, s := range spec.Signers {
		acc := c.Accounts[s.Acct]
		num, seq, _ := c.AccountInfo(ctx, acc.Addr)
		seq = uint64(int64(seq) + s.SeqOff)
		slots[i] = slot{acc.Priv.PubKey(), acc.Priv, num, seq, signMode(s.Mode), acc.Addr}
		sigs[i] = signing.SignatureV2{
			PubKey:   slots[i].pub,
			Data:     &signing.SingleSignatureData{SignMode: slots[i].mode},
			Sequence: seq,
		}
	}
	if err := b.SetSignatures(sigs...); err != nil {
		return nil, err
	}
	for i, s := range slots {
		sd := authsigning.SignerData{
			ChainID: ChainID, AccountNumber: s.num, Sequence: s.seq,
			Address: s.addr.String(), PubKey: s.pub,
		}
		var sig []byte
		if spec.Signers[i].Garbage {
			sig = make([]byte, 64)
			for j := range sig {
				sig[j] = byte(j*7 + 1)
			}
		} else {
			bz, err := txc.SignModeHandler().GetSignBytes(s.mode, sd, b.GetTx())
			if err != nil {
				return nil, fmt.Errorf("sign bytes: %w", err)
			}
			sig, err = s.priv.Sign(bz)
			if err != nil {
				return nil, err
			}
		}
		sigs[i].Data = &signing.SingleSignatureData{SignMode: s.mode, Signature: sig}
	}
	if len(spec.SignedMsgs) > 0 {
		if err := b.SetMsgs(spec.Msgs...); err != nil {
			return nil, err
		}
	}
	if err := b.SetSignatures(sigs...); err != nil {
		return nil, err
	}
	return txc.TxEncoder()(b.GetTx())
}

// SignBytes returns what the signer at slot i signs for the given spec (no signature made).
func (c *Chain) SignBytes(txc client.TxConfig, spec TxSpec, mode signing.SignMode, sd authsigning.SignerData) ([]byte, error) {
	b := txc.NewTxBuilder()
	if err := b.SetMsgs(spec.Msgs...); err != nil {
		return nil, err
	}
	b.SetGasLimit(DefaultGas)
	b.SetFeeAmount(spec.Fee)
	b.SetMemo(spec.Memo)
	return txc.SignModeHandler().GetSignBytes(mode, sd, b.GetTx())
}

// MsgResponses decodes TxMsgData from a successful DeliverTx result.
func MsgResponses(data []byte) (*sdk.TxMsgData, error) {
	var d sdk.TxMsgData
	if err := d.Unmarshal(data); err != nil {
		return nil, err
	}
	return &d, nil
}

var _ = txtypes.Tx{}
