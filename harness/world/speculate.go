package world

import (
	abci "github.com/cometbft/cometbft/abci/types"
	sdk "github.com/cosmos/cosmos-sdk/types"
	aoltypes "github.com/medibloc/panacea-core/v2/x/aol/types"
	didtypes "github.com/medibloc/panacea-core/v2/x/did/types"
	pnfttypes "github.com/medibloc/panacea-core/v2/x/pnft/types"

	"verifharness/simnet"
)

// Speculate applies the documented effect of msg to the CURRENT models if its documented
// preconditions hold and reports whether they did. Generators use it on cloned models to
// build multi-message transactions whose later messages depend on earlier ones (and whose
// last message is doomed, so that the whole branch is discarded). It never touches the chain.
func (w *World) Speculate(msg sdk.Msg) bool {
	switch x := msg.(type) {
	case *aoltypes.MsgCreateTopicRequest:
		o, ok := addrBytes(x.OwnerAddress)
		if !ok || w.AOL.Topic(o, x.TopicName) != nil || !topicOK(x.TopicName) {
			return false
		}
		w.AOL.Topics[tkey(o, x.TopicName)] = &AolTopic{Owner: o, Name: x.TopicName, Desc: x.Description, Writers: map[string]*AolWriter{}}
		return true
	case *aoltypes.MsgAddWriterRequest:
		o, ok1 := addrBytes(x.OwnerAddress)
		wr, ok2 := addrBytes(x.WriterAddress)
		if !ok1 || !ok2 {
			return false
		}
		t := w.AOL.Topic(o, x.TopicName)
		if t == nil || t.Writers[string(wr)] != nil {
			return false
		}
		t.Writers[string(wr)] = &AolWriter{}
		return true
	case *aoltypes.MsgDeleteWriterRequest:
		o, ok1 := addrBytes(x.OwnerAddress)
		wr, ok2 := addrBytes(x.WriterAddress)
		if !ok1 || !ok2 {
			return false
		}
		t := w.AOL.Topic(o, x.TopicName)
		if t == nil || t.Writers[string(wr)] == nil {
			return false
		}
		delete(t.Writers, string(wr))
		return true
	case *aoltypes.MsgAddRecordRequest:
		o, ok1 := addrBytes(x.OwnerAddress)
		wr, ok2 := addrBytes(x.WriterAddress)
		if !ok1 || !ok2 {
			return false
		}
		t := w.AOL.Topic(o, x.TopicName)
		if t == nil || t.Writers[string(wr)] == nil {
			return false
		}
		t.Records = append(t.Records, AolRecord{Key: x.Key, Value: x.Value, Writer: x.WriterAddress})
		return true
	case *didtypes.MsgCreateDIDRequest, *didtypes.MsgUpdateDIDRequest, *didtypes.MsgDeactivateDIDRequest:
		kind, did, doc, vmid, sig := didFields(msg)
		v := w.judgeDID(kind, did, doc, vmid, sig)
		if !v.ProofOK || !v.IDMatches || (kind == "create" && !v.Absent) || (kind != "create" && !v.Active) {
			return false
		}
		var content []byte
		if doc != nil {
			content, _ = doc.Marshal()
		}
		switch kind {
		case "create":
			w.DID.Entries[did] = &DidEntry{DID: did, Doc: doc, DocBytes: content}
		case "update":
			e := w.DID.Entries[did]
			e.Doc, e.DocBytes, e.Seq = doc, content, e.Seq+1
			e.Tombstone = doc == nil || doc.Id == ""
		default:
			e := w.DID.Entries[did]
			e.Doc, e.DocBytes, e.Seq, e.Tombstone = &didtypes.DIDDocument{}, nil, e.Seq+1, true
		}
		return true
	case *pnfttypes.MsgCreateDenomRequest:
		if _, dup := w.PNFT.Denoms[x.Id]; dup || !idOK(x.Id) {
			return false
		}
		ob, ok := addrBytes(x.Creator)
		if !ok {
			return false
		}
		w.PNFT.Denoms[x.Id] = &PnftDenom{ID: x.Id, Name: x.Name, Symbol: x.Symbol, Owner: x.Creator, OwnerAddr: ob}
		return true
	case *pnfttypes.MsgUpdateDenomRequest:
		d := w.PNFT.Denoms[x.Id]
		return d != nil && d.Owner == x.Updater
	case *pnfttypes.MsgDeleteDenomRequest:
		d := w.PNFT.Denoms[x.Id]
		if d == nil || d.Owner != x.Remover || len(w.PNFT.TokensOf(x.Id)) > 0 {
			return false
		}
		delete(w.PNFT.Denoms, x.Id)
		return true
	case *pnfttypes.MsgTransferDenomRequest:
		d := w.PNFT.Denoms[x.Id]
		nb, ok := addrBytes(x.Receiver)
		if d == nil || d.Owner != x.Sender || !ok {
			return false
		}
		d.Owner, d.OwnerAddr = x.Receiver, nb
		return true
	case *pnfttypes.MsgMintPNFTRequest:
		d := w.PNFT.Denoms[x.DenomId]
		k := TokenKey{x.DenomId, x.Id}
		ob, ok := addrBytes(x.Creator)
		if d == nil || d.Owner != x.Creator || w.PNFT.Tokens[k] != nil || !ok || !idOK(x.Id) {
			return false
		}
		w.PNFT.Tokens[k] = &PnftToken{Denom: x.DenomId, ID: x.Id, Name: x.Name, Creator: x.Creator, Owner: ob}
		return true
	case *pnfttypes.MsgTransferPNFTRequest:
		t := w.PNFT.Tokens[TokenKey{x.DenomId, x.Id}]
		nb, ok := addrBytes(x.Receiver)
		if t == nil || !sameAccount(x.Sender, t.Owner) || x.Sender != canon(x.Sender) || !ok {
			return false
		}
		t.Owner = nb
		return true
	case *pnfttypes.MsgBurnPNFTRequest:
		k := TokenKey{x.DenomId, x.Id}
		t := w.PNFT.Tokens[k]
		if t == nil || !sameAccount(x.Burner, t.Owner) || x.Burner != canon(x.Burner) {
			return false
		}
		delete(w.PNFT.Tokens, k)
		return true
	}
	return false
}

// SwapModels replaces the models by clones and returns a function that restores them.
func (w *World) SwapModels() (restore func()) {
	a, d, p := w.AOL, w.DID, w.PNFT
	w.AOL, w.DID, w.PNFT = a.Clone(), d.Clone(), p.Clone()
	return func() { w.AOL, w.DID, w.PNFT = a, d, p }
}

// applySimulate runs a transaction through Simulate and/or CheckTx on the primary instance.
// Neither may have any effect on what DeliverTx later does (the models are not updated).
func (w *World) applySimulate(ts *TxStep, check bool) error {
	var msgs []sdk.Msg
	for _, m := range ts.Msgs {
		msg, err := w.DecodeMsg(m)
		if err != nil {
			return nil
		}
		msgs = append(msgs, msg)
	}
	w.RegisterProofs(ts.Proofs)
	raw, err := w.C.BuildTx(simnet.TxSpec{Msgs: msgs, Signers: ts.Signers, Fee: parseCoins(ts.Fee), FeePayer: ts.FeePayer, Gas: ts.Gas})
	if err != nil {
		w.shape("simulate:unbuildable")
		return nil
	}
	pre := map[string][]simnet.KV{}
	ctx := w.C.Ctx()
	for _, st := range customStores {
		pre[st] = w.C.DumpStore(ctx, st)
	}
	if check {
		res := w.C.App.CheckTx(abci.RequestCheckTx{Tx: raw, Type: abci.CheckTxType_New})
		if simnet.IsPanic(res.Codespace, res.Code) && w.On("C17") {
			return vio("C17", "CheckTx recovered a panic: %s", res.Log)
		}
		w.checkDirty = true
		w.shape("checktx")
		w.Label("primary perturbed: CheckTx")
	} else {
		_, _, _ = w.C.App.Simulate(raw)
		w.shape("simulate")
		w.Label("primary perturbed: Simulate")
	}
	ctx = w.C.Ctx()
	for _, st := range customStores {
		if !EqualKV(pre[st], w.C.DumpStore(ctx, st)) {
			return vio(w.Opt.Prop, "Simulate/CheckTx changed the %s store that DeliverTx and queries read", st)
		}
	}
	return nil
}
