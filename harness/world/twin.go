package world

import (
	"bytes"
	"fmt"
	"runtime"
	"time"

	dbm "github.com/cometbft/cometbft-db"
	abci "github.com/cometbft/cometbft/abci/types"
	"github.com/cosmos/gogoproto/proto"

	"verifharness/simnet"
)

// BlockRec is what the primary did in the block that is currently open (or was just
// committed): enough to deliver the same block again, here or on a twin.
type BlockRec struct {
	DT      int64
	Raw     [][]byte
	Res     []abci.ResponseDeliverTx
	BeginEv []abci.Event
	EndRes  abci.ResponseEndBlock
	HasEnd  bool
	Hash    []byte
	Height  int64
	// Hook names a harness action performed right after BeginBlock (C19: "schedule").
	Hook string
}

// Twin is an independently constructed application instance that executes every block the
// primary commits (and only those), never stops, and may be perturbed by CheckTx,
// re-check, simulation and query calls between deliveries.
type Twin struct {
	C *simnet.Chain
}

func (w *World) newTwin() error {
	g := w.genOpts // the same genesis, initialised independently (other map iteration order)
	g.Previous = false
	if len(w.Opt.TwinNode) > 0 {
		// another operator: other node-local settings (invariant checks, caches, pruning, ...)
		g.Node = simnet.NodeOpts{}
		for k, v := range w.Opt.TwinNode {
			g.Node[k] = v
		}
		w.Label("twin started with other node-local options")
	}
	c, err := simnet.NewChain(dbm.NewMemDB(), "", g)
	if err != nil {
		return err
	}
	w.Twin = &Twin{C: c}
	if !bytes.Equal(c.App.LastCommitID().Hash, w.C.App.LastCommitID().Hash) {
		return vio(w.Opt.Prop, "two instances initialised from the same genesis have different application hashes")
	}
	return nil
}

// resultsEqual compares the deterministic parts of two DeliverTx results.
func resultsEqual(a, b abci.ResponseDeliverTx) string {
	if a.Code != b.Code || a.Codespace != b.Codespace {
		return fmt.Sprintf("code %s/%d vs %s/%d", a.Codespace, a.Code, b.Codespace, b.Code)
	}
	if !bytes.Equal(a.Data, b.Data) {
		return fmt.Sprintf("data %x vs %x", a.Data, b.Data)
	}
	// Upstream (cosmos-sdk 0.47 baseapp): a tx refused before the ante handler installs the
	// tx gas meter (GasWanted 0, e.g. ValidateBasic failure) reports as GasUsed whatever the
	// block's shared context meter accumulated in BeginBlock, which is larger in the first
	// block after a process start (x/upgrade's one-time downgrade verification). That number
	// is not attributable to the tx and not to panacea-core, so it is not compared.
	preAnte := a.Code != 0 && a.GasWanted == 0 && b.GasWanted == 0
	if a.GasWanted != b.GasWanted || (!preAnte && a.GasUsed != b.GasUsed) {
		return fmt.Sprintf("gas %d/%d vs %d/%d", a.GasWanted, a.GasUsed, b.GasWanted, b.GasUsed)
	}
	if d := eventsEqual(a.Events, b.Events); d != "" {
		return d
	}
	return ""
}

func eventsEqual(a, b []abci.Event) string {
	if len(a) != len(b) {
		return fmt.Sprintf("%d events vs %d", len(a), len(b))
	}
	for i := range a {
		if a[i].Type != b[i].Type || len(a[i].Attributes) != len(b[i].Attributes) {
			return fmt.Sprintf("event %d: %v vs %v", i, a[i], b[i])
		}
		for j := range a[i].Attributes {
			if a[i].Attributes[j].Key != b[i].Attributes[j].Key || a[i].Attributes[j].Value != b[i].Attributes[j].Value {
				return fmt.Sprintf("event %d (%s) attribute %s=%s vs %s=%s", i, a[i].Type, a[i].Attributes[j].Key, a[i].Attributes[j].Value, b[i].Attributes[j].Key, b[i].Attributes[j].Value)
			}
		}
	}
	return ""
}

// twinExecute makes the twin execute the block the primary has just committed and compares
// everything the statement lists. mask drives the perturbations.
func (w *World) twinExecute(rec *BlockRec, mask uint64) error {
	t := w.Twin.C
	prop := w.Opt.Prop
	next := func() uint64 { // deterministic function of the generated mask
		mask = mask*6364136223846793005 + 1442695040888963407
		return mask >> 33
	}
	perturb := w.Opt.Perturb
	if perturb {
		old := runtime.GOMAXPROCS(int(1 + next()%8))
		defer runtime.GOMAXPROCS(old)
		oldLoc := time.Local
		time.Local = time.FixedZone("verif", int(next()%24-12)*3600)
		defer func() { time.Local = oldLoc }()
	}
	bb, err := t.BeginBlock(time.Duration(rec.DT) * time.Second)
	if err != nil {
		return vio(prop, "twin: %v", err)
	}
	if d := eventsEqual(rec.BeginEv, bb.Events); d != "" {
		return vio(prop, "BeginBlock events differ between instances at height %d: %s", t.Hdr.Height, d)
	}
	var probes []Probe
	if perturb {
		probes = w.ProbeSet()
	}
	for i, raw := range rec.Raw {
		if perturb {
			r := next()
			if r&1 != 0 {
				t.App.CheckTx(abci.RequestCheckTx{Tx: raw, Type: abci.CheckTxType_New})
				w.Label("twin perturbed: CheckTx")
			}
			if r&2 != 0 {
				t.App.CheckTx(abci.RequestCheckTx{Tx: raw, Type: abci.CheckTxType_Recheck})
				w.Label("twin perturbed: ReCheckTx")
			}
			if r&4 != 0 {
				_, _, _ = t.App.Simulate(raw)
				w.Label("twin perturbed: Simulate")
			}
			if r&8 != 0 && len(probes) > 0 {
				for k := 0; k < 3; k++ {
					p := probes[int(next()%uint64(len(probes)))]
					t.QueryRaw(p.Path, p.Req, 0)
				}
				w.Label("twin perturbed: queries")
			}
			if r&16 != 0 && i+1 < len(rec.Raw) {
				// simulate a LATER tx of the block before this one is delivered
				_, _, _ = t.App.Simulate(rec.Raw[i+1])
			}
		}
		res := t.DeliverTx(raw)
		if d := resultsEqual(rec.Res[i], res); d != "" {
			return vio(prop, "tx %d of height %d has different results on two instances: %s", i, t.Hdr.Height, d)
		}
	}
	eb, err := t.EndBlock()
	if err != nil {
		return vio(prop, "twin: %v", err)
	}
	if d := eventsEqual(rec.EndRes.Events, eb.Events); d != "" {
		return vio(prop, "EndBlock events differ between instances at height %d: %s", t.Hdr.Height, d)
	}
	if !proto.Equal(rec.EndRes.ConsensusParamUpdates, eb.ConsensusParamUpdates) {
		return vio(prop, "EndBlock reports other consensus parameters on two instances at height %d: %v vs %v", t.Hdr.Height, rec.EndRes.ConsensusParamUpdates, eb.ConsensusParamUpdates)
	}
	if len(rec.EndRes.ValidatorUpdates) != len(eb.ValidatorUpdates) {
		return vio(prop, "validator updates differ between instances")
	}
	if err := t.Commit(); err != nil {
		return vio(prop, "twin: %v", err)
	}
	if t.Height != w.C.Height || !bytes.Equal(t.App.LastCommitID().Hash, w.C.App.LastCommitID().Hash) {
		return vio(prop, "application hash differs at height %d/%d: %X vs %X", w.C.Height, t.Height, w.C.App.LastCommitID().Hash, t.App.LastCommitID().Hash)
	}
	w.Label("twin block compared")
	if w.On("C09") {
		ps := w.ProbeSet()
		a, b := Answers(w.C, ps, 0), Answers(t, ps, 0)
		for i := range ps {
			if !bytes.Equal(a[i], b[i]) {
				return vio("C09", "query %q answers differently on two instances at height %d", ps[i].Name, t.Height)
			}
		}
		w.Obs["c09 probe answers compared"] += len(ps)
	}
	return nil
}

// ---- C10: committed-state snapshots -------------------------------------------------------------

// allStoreDump dumps every mounted KV store of the committed state.
func (w *World) allStoreDump() map[string][]simnet.KV {
	ctx := w.C.CommittedCtx()
	out := map[string][]simnet.KV{}
	for name := range w.C.App.GetKVStoreKey() {
		out[name] = w.C.DumpStore(ctx, name)
	}
	return out
}

// checkReopened: the re-opened instance is at the last committed height with exactly the
// committed state and hash.
func (w *World) checkReopened(wantHeight int64, wantHash []byte) error {
	if got := w.C.App.LastBlockHeight(); got != wantHeight {
		return vio("C10", "after restart the node is at height %d, last committed was %d", got, wantHeight)
	}
	if !bytes.Equal(w.C.App.LastCommitID().Hash, wantHash) {
		return vio("C10", "after restart the application hash is %X, committed was %X", w.C.App.LastCommitID().Hash, wantHash)
	}
	now := w.allStoreDump()
	for _, name := range sortedKeys(w.commitDump) {
		if !EqualKV(w.commitDump[name], now[name]) {
			added, removed, changed := simnet.DiffDump(w.commitDump[name], now[name])
			return vio("C10", "after restart store %q differs from the committed state (+%d -%d ~%d keys)", name, len(added), len(removed), len(changed))
		}
	}
	return nil
}
