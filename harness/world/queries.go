package world

import (
	"encoding/base64"
	"strings"

	"github.com/cosmos/cosmos-sdk/types/query"
	aoltypes "github.com/medibloc/panacea-core/v2/x/aol/types"
	didtypes "github.com/medibloc/panacea-core/v2/x/did/types"
	pnfttypes "github.com/medibloc/panacea-core/v2/x/pnft/types"

	"verifharness/simnet"
)

// applyQueries serves hostile queries; a recovered panic is a C17 violation.
func (w *World) applyQueries(qs []QueryStep) error {
	for _, q := range qs {
		data, err := base64.StdEncoding.DecodeString(q.Data)
		if err != nil {
			continue
		}
		res := w.C.QueryRaw(q.Path, data, q.Height)
		if q.Path == pathDID && !q.Raw {
			// a client's read, possibly of an earlier height: afterwards the read of the latest
			// state must still be the committed one
			var r didtypes.QueryDIDRequest
			if r.Unmarshal(data) == nil {
				if bz, err := base64.StdEncoding.DecodeString(r.DidBase64); err == nil {
					if q.Height > 0 {
						w.Label("did read at an earlier height")
					}
					if err := w.checkDIDReadsNow([]string{string(bz)}); err != nil {
						return err
					}
				}
			}
		}
		w.shape("query:" + q.Path[strings.LastIndex(q.Path, "/")+1:])
		if !q.Raw {
			w.Label("c17 query reached handler")
		}
		if simnet.IsPanic(res.Codespace, res.Code) {
			w.Label("query recovered panic")
			if w.On("C17") {
				if k := w.knownQueryPanic(q.Path, data, res.Log); k != "" {
					w.Excluded[k]++
					continue
				}
				return vio("C17", "query %s recovered a panic: %s", q.Path, res.Log)
			}
		}
	}
	return nil
}

// knownQueryPanic: open finding "AOL Record/Topic/Writer query with a topic name longer than
// 255 bytes".
func (w *World) knownQueryPanic(path string, data []byte, log string) string {
	if w.Opt.Open["C17-paginate-reverse-key"] && strings.Contains(log, "prefixIterator invalid") {
		// upstream query.Paginate: reverse iteration with a continuation key that is the last key
		var pg *query.PageRequest
		switch path {
		case pathAolTopics:
			var r aoltypes.QueryTopicsRequest
			if r.Unmarshal(data) == nil {
				pg = r.Pagination
			}
		case pathAolWriters:
			var r aoltypes.QueryWritersRequest
			if r.Unmarshal(data) == nil {
				pg = r.Pagination
			}
		case pathDenoms:
			var r pnfttypes.QueryDenomsRequest
			if r.Unmarshal(data) == nil {
				pg = r.Pagination
			}
		}
		if pg != nil && pg.Reverse && len(pg.Key) > 0 {
			return "C17-paginate-reverse-key"
		}
	}
	if !w.Opt.Open["C17-query-long-topic"] {
		return ""
	}
	topic := ""
	switch path {
	case pathAolRecord:
		var r aoltypes.QueryRecordRequest
		if r.Unmarshal(data) == nil {
			topic = r.TopicName
		}
	case pathAolTopic:
		var r aoltypes.QueryTopicRequest
		if r.Unmarshal(data) == nil {
			topic = r.TopicName
		}
	case pathAolWriter:
		var r aoltypes.QueryWriterRequest
		if r.Unmarshal(data) == nil {
			topic = r.TopicName
		}
	}
	if len(topic) > 255 {
		return "C17-query-long-topic"
	}
	return ""
}

// knownTxPanic: open finding "create/update DID without a document".
func (w *World) knownTxPanic(obs *TxObs) string {
	if !w.Opt.Open["C17-nil-document"] {
		return ""
	}
	for _, m := range obs.Msgs {
		switch x := m.(type) {
		case *didtypes.MsgCreateDIDRequest:
			if x.Document == nil {
				return "C17-nil-document"
			}
		case *didtypes.MsgUpdateDIDRequest:
			if x.Document == nil {
				return "C17-nil-document"
			}
		}
	}
	return ""
}
