package world

import (
	"bytes"
	"crypto/sha256"
	"encoding/base64"
	"encoding/binary"
	"encoding/hex"
	"fmt"
	"github.com/cosmos/cosmos-sdk/codec"
	"strings"

	"github.com/btcsuite/btcutil/base58"
	"github.com/cometbft/cometbft/crypto/ed25519"
	"github.com/cometbft/cometbft/crypto/secp256k1"
	didtypes "github.com/medibloc/panacea-core/v2/x/did/types"

	"verifharness/simnet"
)

// ---- key pool and proof ledger ------------------------------------------------------------

// DIDKey is a key pair usable in DID documents.
type DIDKey struct {
	Name string
	Secp secp256k1.PrivKey // nil for ed25519 keys
	Ed   ed25519.PrivKey
	Pub  []byte // raw public key bytes as they go (base58) into documents
}

func (k DIDKey) IsSecp() bool { return k.Secp != nil }

// DID derives the method-specific identifier from the key as the specification says.
func (k DIDKey) DID() string {
	h := sha256.Sum256(k.Pub)
	return "did:panacea:" + base58.Encode(h[:])
}

// DIDKeys is the fixed pool: 6 secp256k1 keys and 2 ed25519 keys.
func DIDKeys() []DIDKey {
	var out []DIDKey
	for i := 0; i < 6; i++ {
		p := secp256k1.GenPrivKeySecp256k1([]byte(fmt.Sprintf("verif-did-key-%d", i)))
		if i < 2 {
			// the DID keys 0 and 1 ARE the keys of the chain accounts a0 and a1 (a wallet that
			// uses one key for both): the account that relays a message may be "the key's account"
			p = secp256k1.PrivKey(simnet.NewAccount(fmt.Sprintf("a%d", i)).Priv.Bytes())
		}
		out = append(out, DIDKey{Name: fmt.Sprintf("k%d", i), Secp: p, Pub: p.PubKey().Bytes()})
	}
	for i := 0; i < 2; i++ {
		p := ed25519.GenPrivKeyFromSecret([]byte(fmt.Sprintf("verif-did-edkey-%d", i)))
		out = append(out, DIDKey{Name: fmt.Sprintf("e%d", i), Ed: p, Pub: p.PubKey().Bytes()})
	}
	return out
}

// DataWithSeqBytes is the specification's proof payload: protobuf
// DataWithSeq{data = proto(content), sequence = seq}, hand-encoded here.
func DataWithSeqBytes(content []byte, seq uint64) []byte {
	var out []byte
	if len(content) > 0 {
		out = append(out, 0x0a)
		out = binary.AppendUvarint(out, uint64(len(content)))
		out = append(out, content...)
	}
	if seq != 0 {
		out = append(out, 0x10)
		out = binary.AppendUvarint(out, seq)
	}
	return out
}

type proofEntry struct {
	key     int
	payload string
	// dids: the identifiers the harness made this signature for (empty: unspecified)
	dids map[string]bool
}

// DidModel is the DID registry model plus the harness-side proof ledger.
type DidModel struct {
	Entries map[string]*DidEntry
	// Ledger: signature(hex) -> what it was made over and by which key. A signature is valid
	// for (payload, key) iff the harness made it so.
	Ledger map[string]proofEntry
	// Accepted is the set of accepted DID messages (type|did|doc|vmid|sig).
	Accepted map[string]bool
}

type DidEntry struct {
	DID       string
	Doc       *didtypes.DIDDocument
	DocBytes  []byte
	Seq       uint64
	Tombstone bool
	Raw       []byte // stored bytes (checked byte-identical once tombstoned)
	Updates   int
}

func NewDidModel() *DidModel {
	return &DidModel{Entries: map[string]*DidEntry{}, Ledger: map[string]proofEntry{}, Accepted: map[string]bool{}}
}

func (m *DidModel) Clone() *DidModel {
	o := NewDidModel()
	for k, e := range m.Entries {
		c := *e
		o.Entries[k] = &c
	}
	// the ledger records facts about the harness (which signatures it made), not chain
	// state: it is shared, never rolled back
	o.Ledger = m.Ledger
	for k, v := range m.Accepted {
		o.Accepted[k] = v
	}
	return o
}

// ProofReg is a proof registration carried by a step so that a replay (which has no
// generator) can rebuild the ledger; it is re-derived, not trusted.
type ProofReg struct {
	Key     int    `json:"key"`
	Payload string `json:"payload_b64"`
	// DID is the identifier the holder made the proof for.
	DID string `json:"did,omitempty"`
}

// RegisterProofs re-makes the listed signatures and enters them into the ledger.
func (w *World) RegisterProofs(regs []ProofReg) {
	for _, r := range regs {
		bz, err := base64.StdEncoding.DecodeString(r.Payload)
		if err != nil || r.Key < 0 || r.Key >= len(w.Keys) {
			continue
		}
		w.DID.SignProofFor(w.Keys, r.Key, bz, r.DID)
	}
}

// SignProof signs payload with pool key ki and records it in the ledger.
func (m *DidModel) SignProof(keys []DIDKey, ki int, payload []byte) []byte {
	return m.SignProofFor(keys, ki, payload, "")
}

// SignProofFor also records which identifier the proof was made for.
func (m *DidModel) SignProofFor(keys []DIDKey, ki int, payload []byte, did string) []byte {
	var sig []byte
	var err error
	if keys[ki].IsSecp() {
		sig, err = keys[ki].Secp.Sign(payload)
	} else {
		sig, err = keys[ki].Ed.Sign(payload)
	}
	if err != nil {
		panic(err)
	}
	k := hex.EncodeToString(sig)
	e, ok := m.Ledger[k]
	if !ok {
		e = proofEntry{ki, string(payload), map[string]bool{}}
	}
	if did != "" {
		e.dids[did] = true
	}
	m.Ledger[k] = e
	return sig
}

// ProofKey returns the pool key a harness-made signature was made with.
func (m *DidModel) ProofKey(sig []byte) (int, bool) {
	e, ok := m.Ledger[hex.EncodeToString(sig)]
	return e.key, ok
}

// proofValid: was sig made by the harness over exactly payload, and with which key.
func (m *DidModel) proofValid(sig, payload []byte) (int, bool) {
	e, ok := m.Ledger[hex.EncodeToString(sig)]
	if !ok || e.payload != string(payload) {
		return -1, false
	}
	return e.key, true
}

// authKeyListed: does doc list, under authentication and under method id vmid, a
// secp256k1-typed method whose key is pub?
func authKeyListed(doc *didtypes.DIDDocument, vmid string, pub []byte) bool {
	if doc == nil {
		return false
	}
	check := func(vm *didtypes.VerificationMethod) bool {
		if vm == nil || vm.Id != vmid {
			return false
		}
		if vm.Type != "EcdsaSecp256k1VerificationKey2019" && vm.Type != "Secp256k1VerificationKey2018" {
			return false
		}
		dec := base58.Decode(vm.PublicKeyBase58)
		return len(dec) == 33 && bytes.Equal(dec, pub)
	}
	for _, rel := range doc.Authentications {
		if vm := rel.GetVerificationMethod(); vm != nil {
			if check(vm) {
				return true
			}
			continue
		}
		if rel.GetVerificationMethodId() == vmid {
			for _, vm := range doc.VerificationMethods {
				if check(vm) {
					return true
				}
			}
		}
	}
	return false
}

// didVerdict is the harness's judgement of one DID message against the model.
type didVerdict struct {
	Absent, Active, Tomb bool
	ProofOK              bool   // valid signature by a listed authentication key over content+current seq
	ProofOverSeq         uint64 // the sequence the proof was made over (if it is in the ledger)
	ProofKnown           bool
	IDMatches            bool // document.id == did (create/update with non-empty document)
	Replay               bool
	Why                  string
}

func msgKey(kind, did string, doc []byte, vmid string, sig []byte) string {
	return kind + "|" + did + "|" + hex.EncodeToString(doc) + "|" + vmid + "|" + hex.EncodeToString(sig)
}

func (w *World) judgeDID(kind, did string, doc *didtypes.DIDDocument, vmid string, sig []byte) didVerdict {
	m := w.DID
	e := m.Entries[did]
	v := didVerdict{Absent: e == nil, Active: e != nil && !e.Tombstone, Tomb: e != nil && e.Tombstone}
	var content []byte
	switch kind {
	case "create", "update":
		if doc != nil {
			bz, err := doc.Marshal()
			if err != nil {
				v.Why = "document unmarshalable"
				return v
			}
			content = bz
			v.IDMatches = doc.Id == did || doc.Id == ""
		}
	case "deactivate":
		content, _ = (&didtypes.DIDDocument{Id: did}).Marshal()
		v.IDMatches = true
	}
	v.Replay = m.Accepted[msgKey(kind, did, content, vmid, sig)]
	seq := uint64(0)
	var against *didtypes.DIDDocument
	if kind == "create" {
		against = doc
	} else if e != nil {
		seq = e.Seq
		against = e.Doc
	}
	if le, ok := m.Ledger[hex.EncodeToString(sig)]; ok {
		v.ProofKnown = true
		// recover the sequence the proof was made over, for diagnostics
		if strings.HasPrefix(le.payload, string(DataWithSeqBytes(content, 0))) {
			rest := []byte(le.payload)[len(DataWithSeqBytes(content, 0)):]
			if len(rest) > 1 && rest[0] == 0x10 {
				v.ProofOverSeq, _ = binary.Uvarint(rest[1:])
			}
		}
	}
	ki, ok := m.proofValid(sig, DataWithSeqBytes(content, seq))
	if !ok {
		v.Why = "signature is not a harness-made proof over (content, current sequence)"
		return v
	}
	if !w.Keys[ki].IsSecp() {
		v.Why = "proof made with a non-secp256k1 key"
		return v
	}
	if !authKeyListed(against, vmid, w.Keys[ki].Pub) {
		v.Why = "signing key is not listed under authentication with the quoted method id"
		return v
	}
	v.ProofOK = true
	return v
}

func didStoreKey(did string) []byte { return append([]byte{0x00}, []byte(did)...) }

// decodeDIDEntry strips the varint length prefix and decodes the stored entry.
func decodeDIDEntry(raw []byte) (*didtypes.DIDDocumentWithSeq, error) {
	n, k := binary.Uvarint(raw)
	if k <= 0 || int(n) != len(raw)-k {
		return nil, fmt.Errorf("bad length prefix")
	}
	var d didtypes.DIDDocumentWithSeq
	if err := d.Unmarshal(raw[k:]); err != nil {
		return nil, err
	}
	return &d, nil
}

func isDIDProp(p string) bool { return p == "C03" || p == "C04" || p == "C05" || p == "C11" }

func (w *World) observeDID(obs *TxObs) error {
	m := w.DID
	nDID := 0
	for _, msg := range obs.Msgs {
		switch msg.(type) {
		case *didtypes.MsgCreateDIDRequest, *didtypes.MsgUpdateDIDRequest, *didtypes.MsgDeactivateDIDRequest:
			nDID++
		}
	}
	changed := !EqualKV(obs.Pre["did"], obs.Post["did"])
	if nDID == 0 && !changed {
		return nil
	}
	prop := w.Opt.Prop
	if !obs.OK() {
		if changed && isDIDProp(prop) {
			return vio(prop, "refused transaction (code %d) changed the did store", obs.Res.Code)
		}
		if nDID > 0 {
			w.Label("did refused attempt")
			// classify refused attempts for the non-triviality rules
			for _, msg := range obs.Msgs {
				kind, did, doc, vmid, sig := didFields(msg)
				if kind == "" {
					continue
				}
				v := w.judgeDID(kind, did, doc, vmid, sig)
				if v.Tomb {
					w.Label("did attempt on tombstone")
					if v.ProofKnown {
						w.Label("did attempt on tombstone with harness-made proof")
					}
				}
				if v.Replay {
					w.Label("did replay refused")
				}
				if !v.IDMatches {
					w.Label("did mismatching id refused")
				}
				if w.On("C03") && obs.AntePassed && len(obs.Msgs) == 1 && !obs.Step.Wrapped() && kind == "create" &&
					v.Absent && v.ProofOK && v.IDMatches && doc != nil && uniqueAuthIDs(doc) && obs.Res.Codespace != "sdk" {
					return vio("C03", "canonical create of fresh %s with a valid self-proof was refused: %s/%d %s", did, obs.Res.Codespace, obs.Res.Code, obs.Res.Log)
				}
			}
		}
		return nil
	}
	touched := map[string]bool{}
	for _, msg := range obs.Msgs {
		kind, did, doc, vmid, sig := didFields(msg)
		if kind == "" {
			continue
		}
		v := w.judgeDID(kind, did, doc, vmid, sig)
		if w.On("C05") {
			if v.Tomb {
				return vio("C05", "%s on deactivated %s was accepted", kind, did)
			}
			if kind == "create" && !v.Absent {
				return vio("C05", "create on existing %s was accepted", did)
			}
		}
		if w.On("C04") {
			if v.Replay {
				return vio("C04", "%s for %s that was accepted before was accepted again", kind, did)
			}
			if !v.ProofOK && v.ProofKnown && kind != "create" && v.Active && v.ProofOverSeq != m.Entries[did].Seq {
				return vio("C04", "%s for %s accepted with a proof over sequence %d while the current sequence is %d", kind, did, v.ProofOverSeq, m.Entries[did].Seq)
			}
		}
		if w.On("C03") {
			ok := v.ProofOK
			switch kind {
			case "create":
				ok = ok && v.Absent
			default:
				ok = ok && v.Active
			}
			if !ok {
				return vio("C03", "%s for %s accepted without a valid proof by a current authentication key (%s; absent=%v active=%v)", kind, did, v.Why, v.Absent, v.Active)
			}
		}
		if w.On("C11") {
			// an ownership proof produced for one identifier must not write under another
			if le, ok := m.Ledger[hex.EncodeToString(sig)]; ok && len(le.dids) > 0 && !le.dids[did] {
				if kind == "update" && doc.GetId() == "" && w.Opt.Open["C11-unbound-empty-update-proof"] {
					w.Excluded["C11-unbound-empty-update-proof"]++
				} else {
					return vio("C11", "%s under %s accepted with an ownership proof that was produced for %v only", kind, did, sortedKeys(le.dids))
				}
			}
		}
		if w.On("C11") && !v.IDMatches {
			if !w.Opt.Open["C11-create-mismatch"] {
				return vio("C11", "%s under %s accepted with a document whose id is %q", kind, did, doc.GetId())
			}
		}
		// apply the documented effect
		touched[did] = true
		w.AcceptedDID = append(w.AcceptedDID, EncodeMsg(msg))
		var content []byte
		if doc != nil {
			content, _ = doc.Marshal()
		}
		switch kind {
		case "create":
			m.Accepted[msgKey(kind, did, content, vmid, sig)] = true
			m.Entries[did] = &DidEntry{DID: did, Doc: doc, DocBytes: content, Seq: 0}
			w.Label("did created")
		case "update":
			m.Accepted[msgKey(kind, did, content, vmid, sig)] = true
			e := m.Entries[did]
			if e == nil {
				e = &DidEntry{DID: did}
				m.Entries[did] = e
			}
			if le, ok := m.Ledger[hex.EncodeToString(sig)]; ok && le.payload == string(DataWithSeqBytes(content, 0)) && e.Seq == 0 {
				w.Obs["c04 create-proof reused once as update (outside the statement)"]++
			}
			if e.Doc != nil && doc != nil && !sameAuthKeys(e.Doc, doc) {
				w.Label("did key rotation")
				e.Updates++
			}
			e.Doc, e.DocBytes, e.Seq = doc, content, e.Seq+1
			if doc == nil || doc.Id == "" {
				e.Tombstone = true
				w.Label("did deactivated")
			}
			w.Label("did updated")
		case "deactivate":
			dc, _ := (&didtypes.DIDDocument{Id: did}).Marshal()
			m.Accepted[msgKey(kind, did, dc, vmid, sig)] = true
			e := m.Entries[did]
			if e == nil {
				e = &DidEntry{DID: did}
				m.Entries[did] = e
			}
			e.Doc, e.DocBytes, e.Seq, e.Tombstone = &didtypes.DIDDocument{}, nil, e.Seq+1, true
			w.Label("did deactivated")
		}
	}
	if isDIDProp(prop) {
		return w.checkDIDRaw(obs.Pre["did"], obs.Post["did"], touched, true)
	}
	return nil
}

func uniqueAuthIDs(doc *didtypes.DIDDocument) bool {
	seen := map[string]bool{}
	for _, rel := range doc.Authentications {
		id := rel.GetVerificationMethodId()
		if vm := rel.GetVerificationMethod(); vm != nil {
			id = vm.Id
		}
		if seen[id] {
			return false
		}
		seen[id] = true
	}
	ids := map[string]bool{}
	for _, vm := range doc.VerificationMethods {
		if ids[vm.Id] {
			return false
		}
		ids[vm.Id] = true
	}
	return true
}

func sameAuthKeys(a, b *didtypes.DIDDocument) bool {
	ka, _ := (&didtypes.DIDDocument{VerificationMethods: a.VerificationMethods, Authentications: a.Authentications}).Marshal()
	kb, _ := (&didtypes.DIDDocument{VerificationMethods: b.VerificationMethods, Authentications: b.Authentications}).Marshal()
	return bytes.Equal(ka, kb)
}

func didFields(msg interface{}) (kind, did string, doc *didtypes.DIDDocument, vmid string, sig []byte) {
	switch x := msg.(type) {
	case *didtypes.MsgCreateDIDRequest:
		return "create", x.Did, x.Document, x.VerificationMethodId, x.Signature
	case *didtypes.MsgUpdateDIDRequest:
		return "update", x.Did, x.Document, x.VerificationMethodId, x.Signature
	case *didtypes.MsgDeactivateDIDRequest:
		return "deactivate", x.Did, nil, x.VerificationMethodId, x.Signature
	}
	return "", "", nil, "", nil
}

// checkDIDRaw compares the did store with the model: entries untouched by an accepted,
// judged message are byte-identical; touched ones hold the submitted document and the
// model's sequence; tombstones never change again; active entries describe their own key.
func (w *World) checkDIDRaw(pre, post []simnet.KV, touched map[string]bool, diff bool) error {
	prop := w.Opt.Prop
	var added, removed, changed []simnet.KV
	if diff {
		added, removed, changed = simnet.DiffDump(pre, post)
	}
	if len(removed) > 0 {
		return vio(prop, "did entry %q disappeared", removed[0].K[1:])
	}
	for _, set := range [][]simnet.KV{added, changed} {
		for _, kv := range set {
			if len(kv.K) < 1 || kv.K[0] != 0x00 {
				return vio(prop, "unexpected key %x in did store", kv.K)
			}
			if !touched[string(kv.K[1:])] {
				return vio(prop, "did entry %q changed although no accepted message targeted it", kv.K[1:])
			}
		}
	}
	have := map[string][]byte{}
	for _, kv := range post {
		have[string(kv.K)] = kv.V
	}
	if len(post) != len(w.DID.Entries) {
		return vio(prop, "did store holds %d entries, %d were ever created", len(post), len(w.DID.Entries))
	}
	for _, d := range sortedKeys(w.DID.Entries) {
		e := w.DID.Entries[d]
		raw, ok := have[string(didStoreKey(d))]
		if !ok {
			return vio(prop, "did entry %q missing from the store", d)
		}
		if e.Tombstone && e.Raw != nil && !touched[d] {
			if !bytes.Equal(e.Raw, raw) {
				return vio("C05", "tombstone of %s changed", d)
			}
			continue
		}
		dec, err := decodeDIDEntry(raw)
		if err != nil {
			return vio(prop, "did entry %q undecodable: %v", d, err)
		}
		if w.On("C04") || w.On("C03") {
			if dec.Sequence != e.Seq {
				return vio(w.Opt.Prop, "%s stored with sequence %d, expected %d", d, dec.Sequence, e.Seq)
			}
		}
		if w.On("C03") || w.On("C05") {
			var got []byte
			if dec.Document != nil {
				got, _ = dec.Document.Marshal()
			}
			if !bytes.Equal(got, e.DocBytes) {
				return vio(prop, "%s stores a document different from the last accepted one", d)
			}
		}
		if w.On("C11") && !e.Tombstone && dec.Document != nil && dec.Document.Id != "" && dec.Document.Id != d {
			if !w.Opt.Open["C11-create-mismatch"] {
				return vio("C11", "registry holds under %s a document whose id is %s", d, dec.Document.Id)
			}
		}
		if touched[d] || e.Raw == nil {
			e.Raw = raw
		}
	}
	return nil
}

const pathDID = "/panacea.did.v2.Query/DID"

// QueryDID performs the read operation. found=false means the chain reported not-found.
func (w *World) QueryDID(did string, height int64) (*didtypes.DIDDocumentWithSeq, bool, string) {
	q := w.C.Query(pathDID, &didtypes.QueryDIDRequest{DidBase64: base64.StdEncoding.EncodeToString([]byte(did))}, height)
	if q.Code != 0 {
		return nil, false, q.Log
	}
	var r didtypes.QueryDIDResponse
	if err := r.Unmarshal(q.Value); err != nil || r.DidDocumentWithSeq == nil {
		return nil, false, "undecodable"
	}
	return r.DidDocumentWithSeq, true, ""
}

func (w *World) checkDIDCommitted() error {
	prop := w.Opt.Prop
	if !isDIDProp(prop) {
		return nil
	}
	if err := w.checkDIDRaw(nil, w.C.DumpStore(w.C.CommittedCtx(), "did"), map[string]bool{}, false); err != nil {
		return err
	}
	for _, d := range sortedKeys(w.DID.Entries) {
		if err := w.checkDIDRead(d, w.DID.Entries[d]); err != nil {
			return err
		}
	}
	return nil
}

// checkDIDRead performs the read operation for d against the latest committed state and
// compares the answer with e, the model's entry of that state.
func (w *World) checkDIDRead(d string, e *DidEntry) error {
	prop := w.Opt.Prop
	{
		got, found, log := w.QueryDID(d, 0)
		if e.Tombstone {
			if found {
				return vio("C05", "read of deactivated %s returned a document", d)
			}
			if w.On("C05") && !strings.Contains(strings.ToLower(log), "not found") && !strings.Contains(log, "NotFound") && !strings.Contains(log, "deactivated") {
				return vio("C05", "read of deactivated %s did not report not-found: %s", d, log)
			}
			return nil
		}
		if !found {
			return vio(prop, "read of active %s failed: %s", d, log)
		}
		if (w.On("C04") || w.On("C03")) && got.Sequence != e.Seq {
			return vio(prop, "read of %s returned sequence %d, expected %d", d, got.Sequence, e.Seq)
		}
		if w.On("C11") && got.Document != nil && got.Document.Id != d {
			if !w.Opt.Open["C11-create-mismatch"] {
				return vio("C11", "read of %s returned a document about %s", d, got.Document.Id)
			}
		}
		if w.On("C03") || w.On("C05") {
			bz, _ := got.Document.Marshal()
			if !bytes.Equal(bz, e.DocBytes) {
				return vio(prop, "read of %s returned a document different from the last accepted one", d)
			}
		}
	}
	return nil
}

// checkDIDReadsNow is the oracle of a client's read at an arbitrary moment (also in the middle
// of a block): the answer is the one of the last committed state.
func (w *World) checkDIDReadsNow(dids []string) error {
	if !isDIDProp(w.Opt.Prop) || w.committed == nil {
		return nil
	}
	for _, d := range dids {
		if e := w.committed.did.Entries[d]; e != nil {
			if err := w.checkDIDRead(d, e); err != nil {
				return err
			}
			w.Label("did read between commits compared with the committed state")
		}
	}
	return nil
}

// LoadGenesis derives the DID model from a did genesis section: one entry per map key.
func (m *DidModel) LoadGenesis(cdc codec.JSONCodec, raw []byte) error {
	var gs didtypes.GenesisState
	if err := cdc.UnmarshalJSON(raw, &gs); err != nil {
		return err
	}
	for k, d := range gs.Documents {
		e := &DidEntry{DID: k, Doc: d.Document, Seq: d.Sequence}
		if d.Document != nil {
			e.DocBytes, _ = d.Document.Marshal()
		}
		e.Tombstone = (d.Document == nil || d.Document.Id == "") && d.Sequence != 0
		m.Entries[k] = e
	}
	return nil
}
