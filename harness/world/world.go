// Package world couples the real application (simnet.Chain) with independent reference
// models and executes serialisable Steps against both, evaluating the oracles of the
// property under test after every transaction and every block.
package world

import (
	"bytes"
	"encoding/base64"
	"encoding/json"
	"fmt"
	"os"
	"sort"
	"strings"
	"time"

	dbm "github.com/cometbft/cometbft-db"
	abci "github.com/cometbft/cometbft/abci/types"
	codectypes "github.com/cosmos/cosmos-sdk/codec/types"
	sdk "github.com/cosmos/cosmos-sdk/types"
	"github.com/cosmos/cosmos-sdk/x/authz"
	banktypes "github.com/cosmos/cosmos-sdk/x/bank/types"
	"github.com/cosmos/cosmos-sdk/x/group"
	"github.com/medibloc/panacea-core/v2/app"

	"verifharness/simnet"
)

// NumAccounts is the size of the funded, signing account pool.
const NumAccounts = 6

// MsgJSON is a message as pure data (type URL + protobuf bytes).
type MsgJSON struct {
	TypeURL string `json:"type_url"`
	Value   string `json:"value_b64"`
}

// TxStep is a transaction as pure data.
type TxStep struct {
	Msgs []MsgJSON `json:"msgs"`
	// SignedMsgs, when set, are what the signers signed; Msgs replaced them afterwards with
	// the signatures kept (an intermediary tampering with a signed transaction).
	SignedMsgs []MsgJSON `json:"signed_msgs,omitempty"`
	// PrimeCheckTx: the genuine transaction (the one the signers signed) is first submitted to
	// this node's mempool check, as it would be if the intermediary let it through before
	// substituting the content; the block then carries the substituted transaction only.
	PrimeCheckTx bool                `json:"prime_check_tx,omitempty"`
	Signers      []simnet.SignerSpec `json:"signers"`
	Fee          string              `json:"fee,omitempty"`
	FeePayer     string              `json:"fee_payer,omitempty"`
	Gas          uint64              `json:"gas,omitempty"`
	Memo         string              `json:"memo,omitempty"`
	// FeeGranter (an account index + 1) names a fee granter; the harness never creates fee
	// allowances, so on a correct chain such a transaction is refused and nothing moves.
	FeeGranter int `json:"fee_granter,omitempty"`
	// TipFrom / TipAmount set the transaction's optional AuthInfo.tip (an account index + 1 and
	// coins): legal in this SDK version, ignored by a chain without a tip post-handler.
	TipFrom   int    `json:"tip_from,omitempty"`
	TipAmount string `json:"tip_amount,omitempty"`
	// Exec wraps Msgs into one authz.MsgExec whose grantee is account Exec-1 (0 = no wrapping).
	Exec int `json:"exec,omitempty"`
	// Group wraps Msgs into one x/group MsgSubmitProposal (exec = try) of the harness's group
	// policy, proposed by account Group-1 (0 = no wrapping): the messages run with the group
	// policy account (a 32-byte address) as their signer if the proposer is the group's member.
	Group int    `json:"group,omitempty"`
	Note  string `json:"note,omitempty"`
	// Proofs lists the DID proofs the generator made for this tx (see ProofReg).
	Proofs []ProofReg `json:"proofs,omitempty"`
}

// Wrapped reports whether the messages travel inside another module's message.
func (t *TxStep) Wrapped() bool { return t.Exec > 0 || t.Group > 0 }

// Step is one element of a history.
type Step struct {
	Kind string  `json:"kind"` // tx | commit | crash | export_import | restart
	DT   int64   `json:"dt,omitempty"`
	Tx   *TxStep `json:"tx,omitempty"`
	// Queries (kind "queries") are served against committed state.
	Queries []QueryStep `json:"queries,omitempty"`
	// Walks (kind "walks") replaces the paging walks used by the listing oracles, then commits.
	Walks []PageReq `json:"walks,omitempty"`
	// ZeroHeight (kind "export_import") exports the way `export --for-zero-height` does.
	ZeroHeight bool `json:"zero_height,omitempty"`
}

// QueryStep is one ABCI query as pure data.
type QueryStep struct {
	Path   string `json:"path"`
	Data   string `json:"data_b64"`
	Height int64  `json:"height,omitempty"`
	Raw    bool   `json:"raw,omitempty"`
}

// Violation is an oracle failure.
type Violation struct {
	Prop string
	Msg  string
}

func (v *Violation) Error() string { return fmt.Sprintf("[%s] %s", v.Prop, v.Msg) }

// BankSetup is pure data (it is stored in replay files).
type BankSetup struct {
	SendDisabled       []string `json:"send_disabled,omitempty"`
	DefaultSendEnabled bool     `json:"default_send_enabled"`
	BurnAddressCoins   string   `json:"burn_address_coins,omitempty"`
}

// Options select which oracles run.
type Options struct {
	Prop string // property id whose oracles are enabled
	// OnDisk uses GoLevelDB under Dir instead of MemDB.
	OnDisk bool
	Dir    string
	// Genesis customisation.
	Mutate func(gs map[string]json.RawMessage)
	// AolGenesis, when set, is installed as the aol section of the genesis and the AOL model
	// is derived from it (owners of any legal address length, reachable only through genesis).
	AolGenesis json.RawMessage
	// DidGenesis, when set, is installed as the did section of the genesis; the DID model is
	// derived from it (entries are keyed by the genesis map key, whatever the document says).
	DidGenesis json.RawMessage
	// TwinNode: node-local start-up options of the twin instance (the primary runs on defaults
	// unless Node is set).
	TwinNode map[string]interface{}
	// Node: node-local start-up options of the primary instance.
	Node map[string]interface{}
	// Bank, when set, edits the bank section of the genesis: denominations whose transfers are
	// switched off (bank SendEnabled entries, or the default switch), and coins the burn address
	// holds from the start (as it would after an upgrade, an IBC receipt or a module payout).
	Bank *BankSetup
	// PnftGenesis, when set, is installed as the pnft section of the genesis; the PNFT model
	// is derived from it (owner strings as spelled in the file, valid addresses or not).
	PnftGenesis json.RawMessage
	// Also enables the state-agreement oracles of other properties (used by C08/C09/C10/C19,
	// whose statements quantify over "every AOL, DID and PNFT query").
	Also map[string]bool
	// Previous starts the world on the emulated previous release (C19); Dir is its home.
	Previous bool
	// Twin runs a second, never-stopping instance that executes every committed block;
	// Perturb additionally interleaves CheckTx/ReCheck/Simulate/Query calls on it.
	Twin    bool
	Perturb bool
	// ProbeDenoms are extra (possibly non-existing) denom ids used as query arguments.
	ProbeDenoms []string
	// Known-finding exclusions that are currently open (by key).
	Open map[string]bool
}

// World is the system under test plus its models.
type World struct {
	Opt   Options
	C     *simnet.Chain
	Accts []simnet.Account
	// Group is the harness's x/group group (see groupState); when it exists its policy account
	// is Accts[NumAccounts], an actor nobody can sign for.
	Group groupState
	AOL   *AolModel
	DID   *DidModel
	PNFT  *PnftModel
	Authz map[string]bool // granter|grantee|typeURL

	committed *snapshot // models as of the last commit (for crash rollback)

	History []Step
	Shape   []string
	Labels  map[string]int
	pendDT  int64

	// Keys is the DID key pool.
	Keys []DIDKey
	// Walks overrides the paging walks performed by listing oracles.
	Walks []PageReq
	// ProbeDenoms are extra (possibly non-existing) denom ids used as query arguments.
	ProbeDenoms []string
	// block bookkeeping for crash/re-deliver and the twin
	checkDirty bool
	genOpts    simnet.GenesisOptions
	blk        *BlockRec
	// Blocks lists every committed block of the current chain.
	Blocks     []*BlockRec
	Twin       *Twin
	commitDump map[string][]simnet.KV
	commitHash []byte

	// AcceptedDID lists accepted DID messages (generator aid for replays).
	AcceptedDID []MsgJSON

	// LastTx is the observation of the most recent tx (for property-specific code).
	LastTx *TxObs
	// Excluded counts generator exclusions per known-finding key.
	Excluded map[string]int
	// Obs collects free-form observation counters reported in evidence.
	Obs map[string]int
}

type snapshot struct {
	aol   *AolModel
	did   *DidModel
	pnft  *PnftModel
	authz map[string]bool
	group groupState
}

// groupState is the harness's single x/group group: one member (weight 1, threshold 1), one
// policy account. Policy == "" while it does not exist.
type groupState struct {
	Policy string
	Member int
}

// New builds a world with NumAccounts funded accounts.
func New(opt Options) (*World, error) {
	if opt.Prop == "C12" && opt.ProbeDenoms == nil {
		// every pool identifier is also used as a query argument, existing or not
		opt.ProbeDenoms = []string{"a", "ab", "abc", "b", "A", "a/", "a b", "a-1", " a", "a\t", "b/a", "%61", "a%2Fb", "a\x00b", "\x00", "a/b", "/", "zz", ""}
	}
	accts := simnet.DefaultAccounts(NumAccounts)
	var db dbm.DB = dbm.NewMemDB()
	if opt.OnDisk {
		d, err := dbm.NewGoLevelDB("app", opt.Dir)
		if err != nil {
			return nil, err
		}
		db = d
	}
	g := simnet.GenesisOptions{Accounts: accts, Previous: opt.Previous}
	if len(opt.Node) > 0 {
		g.Node = simnet.NodeOpts{}
		for k, v := range opt.Node {
			g.Node[k] = v
		}
	}
	if opt.Mutate != nil || opt.AolGenesis != nil || opt.DidGenesis != nil || opt.PnftGenesis != nil || opt.Bank != nil {
		g.Mutate = func(_ func(interface{}) []byte, gs map[string]json.RawMessage) {
			if opt.Bank != nil {
				cdc := app.MakeEncodingConfig().Codec
				var bg banktypes.GenesisState
				cdc.MustUnmarshalJSON(gs[banktypes.ModuleName], &bg)
				bg.Params.DefaultSendEnabled = opt.Bank.DefaultSendEnabled
				for _, d := range opt.Bank.SendDisabled {
					bg.SendEnabled = append(bg.SendEnabled, banktypes.SendEnabled{Denom: d, Enabled: false})
				}
				if c := parseCoins(opt.Bank.BurnAddressCoins); !c.IsZero() {
					bg.Balances = append(bg.Balances, banktypes.Balance{Address: BurnAddress, Coins: c})
					bg.Supply = bg.Supply.Add(c...)
				}
				gs[banktypes.ModuleName] = cdc.MustMarshalJSON(&bg)
			}
			if opt.AolGenesis != nil {
				gs["aol"] = opt.AolGenesis
			}
			if opt.DidGenesis != nil {
				gs["did"] = opt.DidGenesis
			}
			if opt.PnftGenesis != nil {
				gs["pnft"] = opt.PnftGenesis
			}
			if opt.Mutate != nil {
				opt.Mutate(gs)
			}
		}
	}
	genOpts := g
	c, err := simnet.NewChain(db, opt.Dir, g)
	if err != nil {
		return nil, err
	}
	if opt.OnDisk {
		dir := opt.Dir
		c.ReopenDB = func() (dbm.DB, error) { return dbm.NewGoLevelDB("app", dir) }
	}
	w := &World{Opt: opt, C: c, Accts: accts, ProbeDenoms: opt.ProbeDenoms, genOpts: genOpts,
		AOL: NewAolModel(), DID: NewDidModel(), PNFT: NewPnftModel(), Authz: map[string]bool{},
		Labels: map[string]int{}, Excluded: map[string]int{}, Obs: map[string]int{}, Keys: DIDKeys()}
	w.pendDT = 5
	if opt.AolGenesis != nil {
		if err := w.AOL.LoadGenesis(c.App.AppCodec(), opt.AolGenesis); err != nil {
			return nil, err
		}
		w.Label("aol genesis with generated owners")
	}
	if opt.DidGenesis != nil {
		if err := w.DID.LoadGenesis(c.App.AppCodec(), opt.DidGenesis); err != nil {
			return nil, err
		}
		w.Label("did genesis with generated entries")
	}
	if opt.PnftGenesis != nil {
		if err := w.PNFT.LoadGenesis(c.App.AppCodec(), opt.PnftGenesis); err != nil {
			return nil, err
		}
		w.Label("pnft genesis with generated entries")
	}
	w.snap()
	if opt.Twin {
		if err := w.newTwin(); err != nil {
			return nil, err
		}
	}
	if w.On("C10") {
		w.commitDump, w.commitHash = w.allStoreDump(), w.C.App.LastCommitID().Hash
	}
	return w, nil
}

// On reports whether the oracles of property p are enabled: the property under test, or
// one of the agreement oracles it re-uses (Options.Also).
func (w *World) On(p string) bool { return w.Opt.Prop == p || w.Opt.Also[p] }

func (w *World) snap() {
	w.committed = &snapshot{w.AOL.Clone(), w.DID.Clone(), w.PNFT.Clone(), cloneSet(w.Authz), w.Group}
}

func cloneSet(m map[string]bool) map[string]bool {
	o := make(map[string]bool, len(m))
	for k, v := range m {
		o[k] = v
	}
	return o
}

func (w *World) Label(l string) { w.Labels[l]++ }

// AcctIndex returns the pool index of a bech32 address or -1.
func (w *World) AcctIndex(bech string) int {
	for i, a := range w.Accts {
		if a.Bech == bech {
			return i
		}
	}
	return -1
}

// EncodeMsg turns a message into pure data.
func EncodeMsg(m sdk.Msg) MsgJSON {
	any, err := codectypes.NewAnyWithValue(m)
	if err != nil {
		panic(err)
	}
	return MsgJSON{TypeURL: any.TypeUrl, Value: base64.StdEncoding.EncodeToString(any.Value)}
}

// DecodeMsg resolves pure data back into a message through the app's interface registry
// (i.e. after a protobuf wire round trip, as the node would see it).
func (w *World) DecodeMsg(m MsgJSON) (sdk.Msg, error) {
	bz, err := base64.StdEncoding.DecodeString(m.Value)
	if err != nil {
		return nil, err
	}
	var msg sdk.Msg
	any := &codectypes.Any{TypeUrl: m.TypeURL, Value: bz}
	if err := w.C.App.InterfaceRegistry().UnpackAny(any, &msg); err != nil {
		return nil, err
	}
	return msg, nil
}

func parseCoins(s string) sdk.Coins {
	if s == "" {
		return nil
	}
	c, err := sdk.ParseCoinsNormalized(s)
	if err != nil {
		panic(err)
	}
	return c
}

// TxObs is everything observed around one DeliverTx.
type TxObs struct {
	Step       *TxStep
	Msgs       []sdk.Msg // inner messages (authz unwrapped)
	Outer      []sdk.Msg
	Res        abci.ResponseDeliverTx
	BuildErr   error
	AntePassed bool
	// GroupFailed: a group proposal transaction (code 0) whose messages were not executed.
	GroupFailed bool
	// Tampered: the delivered messages differ from the ones the signatures were made over.
	Tampered bool
	// Signed lists the bech32 addresses of accounts that produced a real signature.
	Signed  map[string]bool
	Pre     map[string][]simnet.KV // store dumps before
	Post    map[string][]simnet.KV
	BalPre  map[string]sdk.Coins
	BalPost map[string]sdk.Coins
	SupPre  sdk.Coins
	SupPost sdk.Coins
	SeqPre  []uint64
	SeqPost []uint64
	Time    time.Time
	Height  int64
}

// OK reports whether the tx was delivered with code 0.
func (o *TxObs) OK() bool { return o.BuildErr == nil && o.Res.Code == 0 && !o.GroupFailed }

var customStores = []string{"aol", "did", "pnft"}

// ensureBlock begins a block if none is open.
func (w *World) ensureBlock() error {
	if w.C.InBlock {
		return nil
	}
	dt := w.pendDT
	if dt <= 0 {
		dt = 1
	}
	bb, err := w.C.BeginBlock(time.Duration(dt) * time.Second)
	if err != nil {
		return &Violation{"C17", err.Error()}
	}
	w.blk = &BlockRec{DT: dt, BeginEv: bb.Events}
	return nil
}

// Apply executes one step, updates the models and evaluates the enabled oracles.
func (w *World) Apply(s Step) error {
	w.History = append(w.History, s)
	switch s.Kind {
	case "tx":
		return w.applyTx(s.Tx)
	case "commit":
		return w.applyCommit(s.DT)
	case "crash":
		return w.applyCrash(false, false)
	case "crash_redeliver":
		return w.applyCrash(true, false)
	case "crash_endblock":
		return w.applyCrash(true, true)
	case "restart":
		return w.applyRestart()
	case "export_import":
		return w.applyExportImport(s.ZeroHeight)
	case "walks":
		w.Walks = s.Walks
		return w.applyCommit(3)
	case "queries":
		return w.applyQueries(s.Queries)
	case "simulate":
		return w.applySimulate(s.Tx, false)
	case "checktx":
		return w.applySimulate(s.Tx, true)
	}
	return fmt.Errorf("unknown step kind %q", s.Kind)
}

func (w *World) shape(s string) { w.Shape = append(w.Shape, s) }

func (w *World) applyTx(ts *TxStep) error {
	if err := w.ensureBlock(); err != nil {
		return err
	}
	w.RegisterProofs(ts.Proofs)
	obs := &TxObs{Step: ts, Signed: map[string]bool{}, Time: w.C.Hdr.Time, Height: w.C.Hdr.Height}
	w.LastTx = obs
	for _, m := range ts.Msgs {
		msg, err := w.DecodeMsg(m)
		if err != nil {
			obs.BuildErr = err
			w.shape("tx:undecodable")
			return nil
		}
		obs.Msgs = append(obs.Msgs, msg)
	}
	obs.Outer = obs.Msgs
	if ts.Exec > 0 {
		ex := authz.NewMsgExec(w.Accts[ts.Exec-1].Addr, obs.Msgs)
		obs.Outer = []sdk.Msg{&ex}
	} else if ts.Group > 0 {
		gp, err := w.groupProposal(ts.Group-1, obs.Msgs)
		if err != nil {
			obs.BuildErr = err
			w.shape("tx:unbuildable")
			return nil
		}
		obs.Outer = []sdk.Msg{gp}
	}
	var signedOuter []sdk.Msg
	if len(ts.SignedMsgs) > 0 {
		var sm []sdk.Msg
		for _, m := range ts.SignedMsgs {
			msg, err := w.DecodeMsg(m)
			if err != nil {
				obs.BuildErr = err
				w.shape("tx:undecodable")
				return nil
			}
			sm = append(sm, msg)
		}
		signedOuter = sm
		if ts.Exec > 0 {
			ex := authz.NewMsgExec(w.Accts[ts.Exec-1].Addr, sm)
			signedOuter = []sdk.Msg{&ex}
		} else if ts.Group > 0 {
			gp, err := w.groupProposal(ts.Group-1, sm)
			if err != nil {
				obs.BuildErr = err
				w.shape("tx:unbuildable")
				return nil
			}
			signedOuter = []sdk.Msg{gp}
		}
		obs.Tampered = !sameMsgList(signedOuter, obs.Outer)
	}
	for _, sg := range ts.Signers {
		// a signature made over other content stands behind nothing in this transaction
		if !sg.Garbage && !obs.Tampered {
			obs.Signed[w.Accts[sg.Acct].Bech] = true
		}
	}
	ctx := w.C.DeliverCtx()
	obs.Pre = map[string][]simnet.KV{}
	for _, st := range customStores {
		obs.Pre[st] = w.C.DumpStore(ctx, st)
	}
	obs.BalPre = w.C.Balances(ctx)
	obs.SupPre = w.C.Supply(ctx)
	for _, a := range w.Accts {
		_, seq, _ := w.C.AccountInfo(ctx, a.Addr)
		obs.SeqPre = append(obs.SeqPre, seq)
	}
	tipFrom := ""
	if ts.TipFrom > 0 && ts.TipFrom <= len(w.Accts) {
		tipFrom = w.Accts[ts.TipFrom-1].Bech
		w.Label("tx with a tip field")
	}
	feeGranter := ""
	if ts.FeeGranter > 0 && ts.FeeGranter <= NumAccounts {
		feeGranter = w.Accts[ts.FeeGranter-1].Bech
		w.Label("tx naming a fee granter (no allowance exists)")
	}
	raw, err := w.C.BuildTx(simnet.TxSpec{Msgs: obs.Outer, SignedMsgs: signedOuter, Signers: ts.Signers, Fee: parseCoins(ts.Fee), FeeGranter: feeGranter, TipFrom: tipFrom, TipAmount: parseCoins(ts.TipAmount),
		FeePayer: ts.FeePayer, Gas: ts.Gas, Memo: ts.Memo})
	if err != nil {
		// The client-side tx builder refused (e.g. GetSigners panics on a malformed address):
		// nothing reaches the chain.
		obs.BuildErr = err
		w.shape("tx:unbuildable")
		w.Label("tx unbuildable")
		return nil
	}
	if ts.PrimeCheckTx && len(signedOuter) > 0 {
		if genuine, err := w.C.BuildTx(simnet.TxSpec{Msgs: signedOuter, Signers: ts.Signers, Fee: parseCoins(ts.Fee), FeeGranter: feeGranter, TipFrom: tipFrom, TipAmount: parseCoins(ts.TipAmount),
			FeePayer: ts.FeePayer, Gas: ts.Gas, Memo: ts.Memo}); err == nil {
			if res := w.C.App.CheckTx(abci.RequestCheckTx{Tx: genuine, Type: abci.CheckTxType_New}); res.Code == 0 {
				w.Label("genuine tx passed CheckTx before its content was replaced")
			}
		}
	}
	obs.Res = w.C.DeliverTx(raw)
	if ts.Group > 0 && obs.Res.Code == 0 {
		// the transaction succeeds whether or not the proposal's messages ran: they did only if
		// the group module reports a successful execution
		obs.GroupFailed = !groupExecSucceeded(obs.Res.Events)
	}
	w.blk.Raw = append(w.blk.Raw, raw)
	w.blk.Res = append(w.blk.Res, obs.Res)
	ctx = w.C.DeliverCtx()
	obs.Post = map[string][]simnet.KV{}
	for _, st := range customStores {
		obs.Post[st] = w.C.DumpStore(ctx, st)
	}
	obs.BalPost = w.C.Balances(ctx)
	obs.SupPost = w.C.Supply(ctx)
	obs.AntePassed = len(ts.Signers) > 0
	for i, a := range w.Accts {
		_, seq, _ := w.C.AccountInfo(ctx, a.Addr)
		obs.SeqPost = append(obs.SeqPost, seq)
		_ = i
	}
	inc := false
	for i := range w.Accts {
		if obs.SeqPost[i] != obs.SeqPre[i] {
			inc = true
		}
	}
	obs.AntePassed = inc
	if strings.Contains(ts.Note, "[hostile]") {
		w.Label("c17 hostile tx delivered")
	}
	if obs.Res.Codespace == "sdk" && obs.Res.Code == 11 {
		w.Label("tx out of gas")
		if obs.AntePassed {
			w.Label("tx out of gas after the ante handler")
		}
	}
	if obs.Tampered {
		w.Label("tx content replaced after signing")
		if obs.OK() && (w.On("C02") || w.On("C06") || w.On("C15") || w.On("C14")) {
			return &Violation{w.Opt.Prop, fmt.Sprintf("a transaction whose messages were replaced after signing was accepted: the signatures were made over %s, the transaction carries %s", msgsString(signedOuter), msgsString(obs.Outer))}
		}
	}
	if simnet.IsPanic(obs.Res.Codespace, obs.Res.Code) {
		w.Label("tx recovered panic")
		if w.On("C17") {
			if k := w.knownTxPanic(obs); k != "" {
				w.Excluded[k]++
			} else {
				return &Violation{"C17", "DeliverTx recovered a panic: " + obs.Res.Log}
			}
		}
	}
	// outcome classification
	oc := "ok"
	if obs.Res.Code != 0 {
		if obs.AntePassed {
			oc = fmt.Sprintf("handler:%s/%d", obs.Res.Codespace, obs.Res.Code)
		} else {
			oc = fmt.Sprintf("ante:%s/%d", obs.Res.Codespace, obs.Res.Code)
		}
	}
	kinds := []string{}
	for _, m := range obs.Msgs {
		u := sdk.MsgTypeURL(m)
		kinds = append(kinds, u[strings.LastIndex(u, ".")+1:])
	}
	ex := ""
	if ts.Exec > 0 {
		ex = "exec:"
	}
	if ts.Group > 0 {
		ex = "group:"
		switch {
		case obs.OK():
			w.Label("group proposal executed")
		case obs.Res.Code == 0:
			w.Label("group proposal accepted, execution failed")
			oc = "group-exec-failed"
		default:
			w.Label("group proposal refused")
		}
	}
	if ts.Exec > 0 {
		if obs.OK() {
			w.Label("authz exec accepted")
		} else {
			w.Label("authz exec refused")
		}
	}
	w.shape("tx:" + ex + strings.Join(kinds, "+") + ":" + oc)
	w.Label("tx " + strings.SplitN(oc, ":", 2)[0])
	if obs.Res.Code != 0 {
		w.Label("code " + oc)
	}

	// generic model updates (authz) and module observers
	if obs.OK() {
		w.observeGeneric(obs)
	}
	if err := w.observeAOL(obs); err != nil {
		return err
	}
	if err := w.observeDID(obs); err != nil {
		return err
	}
	if err := w.observePNFT(obs); err != nil {
		return err
	}
	if w.On("C16") {
		// nothing outside the documented limits is ever stored by a transaction
		for _, m := range obs.Msgs {
			if !IsCustomMsg(m) {
				continue
			}
			switch StatelessVerdict(m) {
			case Reject:
				w.Label("c16 out-of-limits message sent")
				if ts.Exec > 0 {
					w.Label("c16 out-of-limits message sent inside authz exec")
				}
				if ts.Group > 0 {
					w.Label("c16 out-of-limits message sent inside a group proposal")
				}
				if obs.OK() {
					return vio("C16", "a %T outside the documented limits was executed: %v", m, m)
				}
				for _, st := range customStores {
					if !EqualKV(obs.Pre[st], obs.Post[st]) {
						return vio("C16", "a refused out-of-limits %T changed the %s store", m, st)
					}
				}
			case Accept:
				if obs.OK() {
					w.Label("c16 in-limits message executed")
				}
			}
		}
	}
	if w.On("C15") {
		if err := w.checkC15(obs); err != nil {
			return err
		}
	}
	return nil
}

// observeGeneric tracks authz grants from accepted transactions.
func (w *World) observeGeneric(obs *TxObs) {
	for _, m := range obs.Outer {
		switch g := m.(type) {
		case *authz.MsgGrant:
			if a, ok := g.Grant.Authorization.GetCachedValue().(*authz.GenericAuthorization); ok {
				w.Authz[g.Granter+"|"+g.Grantee+"|"+a.Msg] = true
			}
		case *authz.MsgRevoke:
			delete(w.Authz, g.Granter+"|"+g.Grantee+"|"+g.MsgTypeUrl)
		case *group.MsgCreateGroupWithPolicy:
			d, err := simnet.MsgResponses(obs.Res.Data)
			if err != nil || len(d.MsgResponses) != 1 {
				continue
			}
			var r group.MsgCreateGroupWithPolicyResponse
			if err := r.Unmarshal(d.MsgResponses[0].Value); err != nil {
				continue
			}
			pa, err := sdk.AccAddressFromBech32(r.GroupPolicyAddress)
			if err != nil {
				continue
			}
			w.Group = groupState{Policy: r.GroupPolicyAddress, Member: w.AcctIndex(g.Admin)}
			// the policy account joins the pool of actors (nobody holds a key for it)
			pseudo := simnet.Account{Name: "group-policy", Addr: pa, Bech: r.GroupPolicyAddress}
			if len(w.Accts) > NumAccounts {
				w.Accts[NumAccounts] = pseudo
			} else {
				w.Accts = append(append([]simnet.Account{}, w.Accts...), pseudo)
			}
			w.Label("group with policy created")
		}
	}
}

// groupProposal builds the x/group proposal (exec = try) that carries msgs.
func (w *World) groupProposal(proposer int, msgs []sdk.Msg) (sdk.Msg, error) {
	policy := w.Group.Policy
	if policy == "" {
		policy = sdk.AccAddress(bytes.Repeat([]byte{0x77}, 32)).String() // no group yet: refused
	}
	if proposer >= NumAccounts {
		return nil, fmt.Errorf("the group policy account cannot propose")
	}
	return group.NewMsgSubmitProposal(policy, []string{w.Accts[proposer].Bech}, msgs, "", group.Exec_EXEC_TRY, "t", "s")
}

func groupExecSucceeded(evs []abci.Event) bool {
	for _, ev := range evs {
		if ev.Type != "cosmos.group.v1.EventExec" {
			continue
		}
		for _, a := range ev.Attributes {
			if a.Key == "result" && strings.Contains(a.Value, "PROPOSAL_EXECUTOR_RESULT_SUCCESS") {
				return true
			}
		}
	}
	return false
}

// Authorised reports whether `actor` (a bech32 address named inside a message of type
// typeURL) stands behind the transaction: it signed itself, or the transaction is an
// authz exec by a signing grantee that holds a generic grant from actor for typeURL.
func (w *World) Authorised(obs *TxObs, actor, typeURL string) bool {
	if obs.Step.Group > 0 {
		// the group policy account acts when its (only) member proposed and signed
		return w.Group.Policy != "" && actor == w.Group.Policy && obs.Step.Group-1 == w.Group.Member && obs.Signed[w.Accts[w.Group.Member].Bech]
	}
	if obs.Step.Exec == 0 {
		return obs.Signed[actor]
	}
	grantee := w.Accts[obs.Step.Exec-1].Bech
	if !obs.Signed[grantee] {
		return false
	}
	if grantee == actor {
		return true // authz lets an account exec its own messages
	}
	return w.Authz[actor+"|"+grantee+"|"+typeURL]
}

func (w *World) applyCommit(dt int64) error {
	if err := w.ensureBlock(); err != nil {
		return err
	}
	var pre *endBlockObs
	if w.On("C07") {
		pre = w.preEndBlock()
	}
	if !w.blk.HasEnd {
		eb, err := w.C.EndBlock()
		if err != nil {
			return &Violation{w.panicProp(), err.Error()}
		}
		w.blk.EndRes, w.blk.HasEnd = eb, true
	}
	if w.On("C07") {
		if err := w.checkC07(pre); err != nil {
			return err
		}
	}
	if err := w.C.Commit(); err != nil {
		return &Violation{w.panicProp(), err.Error()}
	}
	w.pendDT = dt
	w.checkDirty = false
	w.snap()
	w.shape("commit")
	w.blk.Hash, w.blk.Height = w.C.App.LastCommitID().Hash, w.C.Height
	w.Blocks = append(w.Blocks, w.blk)
	if w.On("C10") {
		w.commitDump, w.commitHash = w.allStoreDump(), w.C.App.LastCommitID().Hash
	}
	if w.Twin != nil {
		if err := w.twinExecute(w.blk, uint64(dt)*2654435761+uint64(len(w.History))); err != nil {
			return err
		}
	}
	if w.On("C07") {
		if err := w.CheckInvariants(); err != nil {
			return err
		}
	}
	return w.checkCommitted()
}

// SyncCommitted refreshes the committed snapshot the restart oracle compares with, after a
// block the caller committed on the chain directly (scenario code outside Apply).
func (w *World) SyncCommitted() {
	if w.On("C10") {
		w.commitDump, w.commitHash = w.allStoreDump(), w.C.App.LastCommitID().Hash
	}
}

func (w *World) panicProp() string {
	if w.On("C07") {
		return "C07"
	}
	return "C17"
}

// applyCrash abandons the current (uncommitted) block and re-opens the application on
// the same database. With redeliver=false the block's transactions are lost and the models
// roll back to the last commit; with redeliver=true the interrupted block is delivered
// again (as consensus would do) and must reproduce its results. afterEnd first runs
// EndBlock so that the stop point is "after EndBlock, before Commit".
func (w *World) applyCrash(redeliver, afterEnd bool) error {
	inBlock := w.C.InBlock
	if inBlock && afterEnd && !w.blk.HasEnd {
		eb, err := w.C.EndBlock()
		if err != nil {
			return &Violation{w.panicProp(), err.Error()}
		}
		w.blk.EndRes, w.blk.HasEnd = eb, true
		w.Label("crash after EndBlock")
	}
	wantHeight := w.C.Height
	if err := w.C.Reopen(); err != nil {
		return &Violation{"C10", "re-open failed: " + err.Error()}
	}
	if w.On("C10") {
		if err := w.checkReopened(wantHeight, w.commitHash); err != nil {
			return err
		}
	}
	if inBlock {
		w.shape("crash:inblock")
		w.Label("crash in block")
		if len(w.blk.Raw) > 0 {
			w.Label("crash after delivered txs")
		}
	} else {
		w.shape("crash:between")
		w.Label("crash:between")
	}
	if inBlock && redeliver {
		rec := w.blk
		bb, err := w.C.BeginBlock(time.Duration(rec.DT) * time.Second)
		if err != nil {
			return &Violation{"C10", err.Error()}
		}
		if d := eventsEqual(rec.BeginEv, bb.Events); d != "" {
			return vio("C10", "re-delivered BeginBlock differs: %s", d)
		}
		for i, raw := range rec.Raw {
			res := w.C.DeliverTx(raw)
			if d := resultsEqual(rec.Res[i], res); d != "" {
				return vio("C10", "tx %d of the interrupted block gives a different result when the block is delivered again: %s", i, d)
			}
		}
		rec.HasEnd = false
		w.blk = rec
		w.Label("block re-delivered after crash")
		return nil
	}
	w.AOL, w.DID, w.PNFT, w.Authz = w.committed.aol.Clone(), w.committed.did.Clone(), w.committed.pnft.Clone(), cloneSet(w.committed.authz)
	w.Group = w.committed.group
	return w.checkCommitted()
}

func (w *World) applyRestart() error {
	if w.C.InBlock {
		if err := w.applyCommit(w.pendDT); err != nil {
			return err
		}
	}
	return w.applyCrash(false, false)
}

// applyExportImport commits any open block, exports the genesis and continues on a fresh
// chain initialised from it.
func (w *World) applyExportImport(zero bool) error {
	// the application exports from its check state (as `panacead export` does on a stopped
	// node, where it equals the committed state); CheckTx calls made by this harness since
	// the last Commit would leak into the export, so a block is committed first
	if w.C.InBlock || w.checkDirty {
		if err := w.applyCommit(w.pendDT); err != nil {
			return err
		}
	}
	st, err := w.C.ExportMode(zero)
	if err != nil {
		return &Violation{"C08", "export failed: " + err.Error()}
	}
	if zero {
		w.Label("export for zero height")
	}
	if w.On("C08") {
		if err := w.checkC08(st, zero); err != nil {
			return err
		}
		// checkC08 switches the world to the imported chain itself.
		w.shape("export_import")
		w.Label("export_import")
		return w.checkCommitted()
	}
	nc, err := simnet.NewChainFromGenesis(st, w.Accts)
	if err != nil {
		return &Violation{"C08", "import failed: " + err.Error()}
	}
	nc.Time = w.C.Time
	w.C = nc
	if w.Twin != nil {
		// the twin exports and imports on its own: two independent InitGenesis runs
		st2, err := w.Twin.C.ExportMode(zero)
		if err != nil {
			return vio(w.Opt.Prop, "twin export failed: %v", err)
		}
		g1, _ := sections(st)
		g2, _ := sections(st2)
		for _, sct := range customSections {
			if !bytes.Equal(g1[sct], g2[sct]) {
				return vio(w.Opt.Prop, "two instances in the same state export different %s sections", sct)
			}
		}
		tc, err := simnet.NewChainFromGenesis(st2, w.Accts)
		if err != nil {
			return vio(w.Opt.Prop, "twin import failed: %v", err)
		}
		tc.Time = nc.Time
		w.Twin.C = tc
		if !bytes.Equal(tc.App.LastCommitID().Hash, nc.App.LastCommitID().Hash) {
			return vio(w.Opt.Prop, "two instances initialised from exports of the same state have different application hashes")
		}
		w.Label("twin re-initialised from its own export")
	}
	if w.On("C10") {
		w.commitDump, w.commitHash = w.allStoreDump(), w.C.App.LastCommitID().Hash
	}
	w.shape("export_import")
	w.Label("export_import")
	return w.checkCommitted()
}

// checkCommitted runs the query-level oracles against committed state.
func (w *World) checkCommitted() error {
	if err := w.checkAOLCommitted(); err != nil {
		return err
	}
	if err := w.checkDIDCommitted(); err != nil {
		return err
	}
	if err := w.checkPNFTCommitted(); err != nil {
		return err
	}
	return nil
}

// ShapeHash is a canonical string of the executed shape.
func (w *World) ShapeString() string { return strings.Join(w.Shape, ",") }

// WriteReplay stores the history so that it can be re-executed without the generator.
func (w *World) WriteReplay(path string, extra map[string]interface{}) error {
	doc := map[string]interface{}{"property": w.Opt.Prop, "kind": "history", "steps": w.History}
	if w.Opt.AolGenesis != nil {
		doc["aol_genesis"] = w.Opt.AolGenesis
	}
	if w.Opt.DidGenesis != nil {
		doc["did_genesis"] = w.Opt.DidGenesis
	}
	if w.Opt.PnftGenesis != nil {
		doc["pnft_genesis"] = w.Opt.PnftGenesis
	}
	if w.Opt.Bank != nil {
		doc["bank_setup"] = w.Opt.Bank
	}
	if len(w.Opt.TwinNode) > 0 {
		doc["twin_node_options"] = w.Opt.TwinNode
	}
	if len(w.Opt.Node) > 0 {
		doc["node_options"] = w.Opt.Node
	}
	for k, v := range extra {
		doc[k] = v
	}
	bz, err := json.MarshalIndent(doc, "", " ")
	if err != nil {
		return err
	}
	return os.WriteFile(path, bz, 0o644)
}

// SortedKeys returns the keys of a string-keyed map in order.
func SortedKeys[V any](m map[string]V) []string { return sortedKeys(m) }

func sortedKeys[V any](m map[string]V) []string {
	ks := make([]string, 0, len(m))
	for k := range m {
		ks = append(ks, k)
	}
	sort.Strings(ks)
	return ks
}

// BankSend builds a plain bank send message.
func BankSend(from, to string, coins string) sdk.Msg {
	return &banktypes.MsgSend{FromAddress: from, ToAddress: to, Amount: parseCoins(coins)}
}

func sameMsgList(a, b []sdk.Msg) bool {
	if len(a) != len(b) {
		return false
	}
	for i := range a {
		if sdk.MsgTypeURL(a[i]) != sdk.MsgTypeURL(b[i]) {
			return false
		}
		x, err1 := a[i].(interface{ Marshal() ([]byte, error) }).Marshal()
		y, err2 := b[i].(interface{ Marshal() ([]byte, error) }).Marshal()
		if err1 != nil || err2 != nil || !bytes.Equal(x, y) {
			return false
		}
	}
	return true
}

func msgsString(ms []sdk.Msg) string {
	var out []string
	for _, m := range ms {
		out = append(out, fmt.Sprintf("%s%v", sdk.MsgTypeURL(m), m))
	}
	s := strings.Join(out, " + ")
	if len(s) > 600 {
		s = s[:600] + "…"
	}
	return s
}

func vio(prop, format string, a ...interface{}) error {
	return &Violation{prop, fmt.Sprintf(format, a...)}
}
