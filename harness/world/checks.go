package world

import (
	"bytes"
	"encoding/base64"
	"encoding/json"
	"fmt"
	"sort"

	sdk "github.com/cosmos/cosmos-sdk/types"
	"github.com/cosmos/cosmos-sdk/types/module"
	authtypes "github.com/cosmos/cosmos-sdk/x/auth/types"
	vestingtypes "github.com/cosmos/cosmos-sdk/x/auth/vesting/types"
	"github.com/cosmos/cosmos-sdk/x/authz"
	banktypes "github.com/cosmos/cosmos-sdk/x/bank/types"
	crisistypes "github.com/cosmos/cosmos-sdk/x/crisis/types"
	distrtypes "github.com/cosmos/cosmos-sdk/x/distribution/types"
	govv1 "github.com/cosmos/cosmos-sdk/x/gov/types/v1"
	"github.com/cosmos/cosmos-sdk/x/group"
	"github.com/medibloc/panacea-core/v2/app"
	aoltypes "github.com/medibloc/panacea-core/v2/x/aol/types"
	didtypes "github.com/medibloc/panacea-core/v2/x/did/types"
	pnfttypes "github.com/medibloc/panacea-core/v2/x/pnft/types"

	"verifharness/simnet"
)

// BurnAddress is the designated sink (x/burn/types/keys.go, docs).
const BurnAddress = "panacea100000000000000000000000000000000nqmafp"

// RequiredSigners is the harness's own table of who must sign a message (written from
// the documentation, never from msg.GetSigners()).
func RequiredSigners(msg sdk.Msg) []string {
	switch x := msg.(type) {
	case *aoltypes.MsgCreateTopicRequest:
		return []string{x.OwnerAddress}
	case *aoltypes.MsgAddWriterRequest:
		return []string{x.OwnerAddress}
	case *aoltypes.MsgDeleteWriterRequest:
		return []string{x.OwnerAddress}
	case *aoltypes.MsgAddRecordRequest:
		if x.FeePayerAddress != "" {
			return []string{x.FeePayerAddress, x.WriterAddress}
		}
		return []string{x.WriterAddress}
	case *didtypes.MsgCreateDIDRequest:
		return []string{x.FromAddress}
	case *didtypes.MsgUpdateDIDRequest:
		return []string{x.FromAddress}
	case *didtypes.MsgDeactivateDIDRequest:
		return []string{x.FromAddress}
	case *pnfttypes.MsgCreateDenomRequest:
		return []string{x.Creator}
	case *pnfttypes.MsgUpdateDenomRequest:
		return []string{x.Updater}
	case *pnfttypes.MsgDeleteDenomRequest:
		return []string{x.Remover}
	case *pnfttypes.MsgTransferDenomRequest:
		return []string{x.Sender}
	case *pnfttypes.MsgMintPNFTRequest:
		return []string{x.Creator}
	case *pnfttypes.MsgTransferPNFTRequest:
		return []string{x.Sender}
	case *pnfttypes.MsgBurnPNFTRequest:
		return []string{x.Burner}
	case *banktypes.MsgSend:
		return []string{x.FromAddress}
	case *banktypes.MsgMultiSend:
		var out []string
		for _, in := range x.Inputs {
			out = append(out, in.Address)
		}
		return out
	case *vestingtypes.MsgCreateVestingAccount:
		return []string{x.FromAddress}
	case *vestingtypes.MsgCreatePermanentLockedAccount:
		return []string{x.FromAddress}
	case *vestingtypes.MsgCreatePeriodicVestingAccount:
		return []string{x.FromAddress}
	case *crisistypes.MsgVerifyInvariant:
		return []string{x.Sender}
	case *distrtypes.MsgFundCommunityPool:
		return []string{x.Depositor}
	case *govv1.MsgSubmitProposal:
		return []string{x.Proposer}
	case *govv1.MsgVote:
		return []string{x.Voter}
	case *govv1.MsgDeposit:
		return []string{x.Depositor}
	case *authz.MsgGrant:
		return []string{x.Granter}
	case *authz.MsgRevoke:
		return []string{x.Granter}
	case *authz.MsgExec:
		return []string{x.Grantee}
	case *group.MsgSubmitProposal:
		return x.Proposers
	case *group.MsgCreateGroupWithPolicy:
		return []string{x.Admin}
	}
	return nil
}

// IsCustomMsg reports whether msg belongs to the AOL, DID or PNFT module.
func IsCustomMsg(msg sdk.Msg) bool {
	switch msg.(type) {
	case *aoltypes.MsgCreateTopicRequest, *aoltypes.MsgAddWriterRequest, *aoltypes.MsgDeleteWriterRequest, *aoltypes.MsgAddRecordRequest,
		*didtypes.MsgCreateDIDRequest, *didtypes.MsgUpdateDIDRequest, *didtypes.MsgDeactivateDIDRequest:
		return true
	}
	return isPNFTMsg(msg)
}

// SignerIndexes maps the required signers of msgs (deduplicated, in order) to account
// pool indexes; ok=false if one of them is not a pool account.
func (w *World) SignerIndexes(msgs []sdk.Msg) (idx []int, ok bool) {
	seen := map[int]bool{}
	for _, m := range msgs {
		for _, s := range RequiredSigners(m) {
			i := w.AcctIndex(canon(s))
			if i < 0 {
				return nil, false
			}
			if !seen[i] {
				seen[i] = true
				idx = append(idx, i)
			}
		}
	}
	return idx, true
}

// ---- C15 -----------------------------------------------------------------------------------

func (w *World) checkC15(obs *TxObs) error {
	if obs.Step.Wrapped() || len(obs.Outer) == 0 {
		return nil
	}
	for _, m := range obs.Outer {
		if !IsCustomMsg(m) {
			return nil
		}
	}
	feeColl := authtypes.NewModuleAddress(authtypes.FeeCollectorName).String()
	fee := parseCoins(obs.Step.Fee)
	if !obs.SupPre.IsEqual(obs.SupPost) {
		return vio("C15", "total supply changed from %s to %s", obs.SupPre, obs.SupPost)
	}
	diff := map[string]sdk.Coins{} // addr -> post - pre (may be negative: keep two maps)
	neg := map[string]sdk.Coins{}
	addrs := map[string]bool{}
	for a := range obs.BalPre {
		addrs[a] = true
	}
	for a := range obs.BalPost {
		addrs[a] = true
	}
	for a := range addrs {
		pre, post := obs.BalPre[a], obs.BalPost[a]
		if pre.IsEqual(post) {
			continue
		}
		up, down := post.SafeSub(pre...)
		_ = down
		gained := sdk.Coins{}
		lost := sdk.Coins{}
		for _, c := range up {
			if c.IsPositive() {
				gained = gained.Add(c)
			} else if c.IsNegative() {
				lost = lost.Add(sdk.NewCoin(c.Denom, c.Amount.Neg()))
			}
		}
		if !gained.IsZero() {
			diff[a] = gained
		}
		if !lost.IsZero() {
			neg[a] = lost
		}
	}
	if !obs.AntePassed {
		if len(diff)+len(neg) > 0 {
			return vio("C15", "transaction refused before execution changed balances: +%v -%v", diff, neg)
		}
	} else {
		payer := obs.Step.FeePayer
		if payer == "" {
			rs := RequiredSigners(obs.Outer[0])
			if len(rs) > 0 {
				payer = rs[0]
			}
		}
		payer = canon(payer)
		for a, c := range neg {
			if a != payer || !c.IsEqual(fee) {
				return vio("C15", "account %s lost %s; only the fee payer %s may lose the fee %s", a, c, payer, fee)
			}
		}
		for a, c := range diff {
			if a != feeColl || !c.IsEqual(fee) {
				return vio("C15", "account %s gained %s; only the fee collector may gain the fee %s", a, c, fee)
			}
		}
		if !fee.IsZero() && payer != feeColl {
			if _, ok := neg[payer]; !ok {
				return vio("C15", "fee %s was not charged to the payer %s", fee, payer)
			}
			w.Label("c15 fee charged")
		}
		if x, ok := obs.Outer[0].(*aoltypes.MsgAddRecordRequest); ok && x.FeePayerAddress != "" && canon(x.FeePayerAddress) != canon(x.WriterAddress) {
			w.Label("c15 add-record with named fee payer")
		}
	}
	if obs.Res.Code != 0 {
		for _, st := range customStores {
			if !EqualKV(obs.Pre[st], obs.Post[st]) {
				return vio("C15", "failed transaction (code %d) changed the %s store", obs.Res.Code, st)
			}
		}
		if obs.AntePassed && len(obs.Outer) > 1 {
			w.Label("c15 multi-message tx failed after ante")
		}
	}
	return nil
}

// ---- C07 -----------------------------------------------------------------------------------

type endBlockObs struct {
	spendable sdk.Coins
	bal       map[string]sdk.Coins
	supply    sdk.Coins
	burnBal   sdk.Coins
}

func (w *World) burnAddr() sdk.AccAddress {
	a, err := sdk.AccAddressFromBech32(BurnAddress)
	if err != nil {
		panic(err)
	}
	return a
}

func (w *World) preEndBlock() *endBlockObs {
	ctx := w.C.DeliverCtx()
	return &endBlockObs{
		spendable: w.C.App.BankKeeper.SpendableCoins(ctx, w.burnAddr()),
		bal:       w.C.Balances(ctx),
		supply:    w.C.Supply(ctx),
		burnBal:   w.C.App.BankKeeper.GetAllBalances(ctx, w.burnAddr()),
	}
}

// endBlockActivity reports what, besides the burn module, moved coins inside EndBlock:
// governance resolving a proposal (deposit refund or burn, execution of its messages) and
// the coins that reached the burn address there.
func (w *World) endBlockActivity() (gov bool, received int) {
	if w.blk == nil || !w.blk.HasEnd {
		return
	}
	for _, ev := range w.blk.EndRes.Events {
		switch ev.Type {
		case "active_proposal", "inactive_proposal":
			gov = true
		case "coin_received":
			for _, a := range ev.Attributes {
				if a.Key == "receiver" && a.Value == BurnAddress {
					received++
				}
			}
		}
	}
	return
}

func (w *World) checkC07(pre *endBlockObs) error {
	ctx := w.C.DeliverCtx()
	sp := w.C.App.BankKeeper.SpendableCoins(ctx, w.burnAddr())
	vesting := !pre.burnBal.IsEqual(pre.spendable)
	if vesting {
		w.Label("c07 burn address holds locked (vesting) coins")
	}
	if !pre.spendable.IsZero() {
		w.Label("c07 burn address spendable at EndBlock")
	}
	if !sp.IsZero() {
		if vesting && w.Opt.Open["C07-vesting-burn-address"] {
			w.Excluded["C07-vesting-burn-address"]++
			return nil
		}
		return vio("C07", "after EndBlock the burn address still has spendable %s (had %s before)", sp, pre.spendable)
	}
	sup := w.C.Supply(ctx)
	want := pre.supply.Sub(pre.spendable...)
	if gov, received := w.endBlockActivity(); gov {
		// governance resolved a proposal in this EndBlock: it refunds or burns deposits and
		// may pay the burn address itself, so other balances legitimately move and the supply
		// may shrink by more than what was spendable before EndBlock, never by less
		w.Label("c07 governance resolved a proposal in EndBlock")
		if received > 0 {
			w.Label("c07 coins reached the burn address inside EndBlock")
		}
		if !want.IsAllGTE(sup) && !sup.IsEqual(want) {
			return vio("C07", "supply after EndBlock is %s, expected at most %s (before %s minus spendable %s)", sup, want, pre.supply, pre.spendable)
		}
		burnMod := authtypes.NewModuleAddress("burn").String()
		if post := w.C.Balances(ctx); !post[burnMod].IsZero() {
			return vio("C07", "burn module account holds %s after EndBlock", post[burnMod])
		}
		return nil
	}
	if !sup.IsEqual(want) {
		return vio("C07", "supply after EndBlock is %s, expected %s (before %s minus spendable %s)", sup, want, pre.supply, pre.spendable)
	}
	post := w.C.Balances(ctx)
	burnMod := authtypes.NewModuleAddress("burn").String()
	if !post[burnMod].IsZero() {
		return vio("C07", "burn module account holds %s after EndBlock", post[burnMod])
	}
	addrs := map[string]bool{}
	for a := range pre.bal {
		addrs[a] = true
	}
	for a := range post {
		addrs[a] = true
	}
	for a := range addrs {
		if a == BurnAddress {
			continue
		}
		if !pre.bal[a].IsEqual(post[a]) {
			return vio("C07", "EndBlock changed the balance of %s from %s to %s", a, pre.bal[a], post[a])
		}
	}
	return nil
}

// CheckInvariants evaluates every invariant registered in the crisis keeper.
func (w *World) CheckInvariants() error {
	ctx := w.C.CommittedCtx()
	for _, r := range w.C.App.CrisisKeeper.Routes() {
		if msg, broken := r.Invar(ctx); broken {
			return vio("C07", "invariant %s/%s broken: %s", r.ModuleName, r.Route, msg)
		}
	}
	return nil
}

// ---- probes and C08 -------------------------------------------------------------------------

// Probe is one query of the probe set.
type Probe struct {
	Path string
	Req  []byte
	Name string
}

type marshaler interface{ Marshal() ([]byte, error) }

func mkProbe(path, name string, req marshaler) Probe {
	bz, err := req.Marshal()
	if err != nil {
		panic(err)
	}
	return Probe{path, bz, name}
}

// ProbeSet derives from the models every single-item query and listing whose answer the
// custom modules define.
func (w *World) ProbeSet() []Probe {
	var ps []Probe
	owners := map[string]bool{}
	for _, a := range w.Accts {
		owners[string(a.Addr.Bytes())] = true
	}
	for _, tk := range sortedKeys(w.AOL.Topics) {
		t := w.AOL.Topics[tk]
		owners[string(t.Owner)] = true
		o := bech(t.Owner)
		ps = append(ps, mkProbe(pathAolTopic, "topic "+tk, &aoltypes.QueryTopicRequest{OwnerAddress: o, TopicName: t.Name}))
		ps = append(ps, mkProbe(pathAolWriters, "writers "+tk, &aoltypes.QueryWritersRequest{OwnerAddress: o, TopicName: t.Name}))
		for _, wk := range sortedKeys(t.Writers) {
			ps = append(ps, mkProbe(pathAolWriter, "writer "+tk, &aoltypes.QueryWriterRequest{OwnerAddress: o, TopicName: t.Name, WriterAddress: bech([]byte(wk))}))
		}
		for i := 0; i <= len(t.Records); i++ {
			ps = append(ps, mkProbe(pathAolRecord, fmt.Sprintf("record %s/%d", tk, i), &aoltypes.QueryRecordRequest{OwnerAddress: o, TopicName: t.Name, Offset: uint64(i)}))
		}
	}
	for _, o := range sortedKeys(owners) {
		ps = append(ps, mkProbe(pathAolTopics, "topics", &aoltypes.QueryTopicsRequest{OwnerAddress: bech([]byte(o))}))
	}
	for _, d := range sortedKeys(w.DID.Entries) {
		ps = append(ps, mkProbe(pathDID, "did "+d, &didtypes.QueryDIDRequest{DidBase64: base64.StdEncoding.EncodeToString([]byte(d))}))
	}
	for _, t := range w.PNFT.Tokens {
		owners[string(t.Owner)] = true
	}
	ps = append(ps, mkProbe(pathDenoms, "denoms", &pnfttypes.QueryDenomsRequest{}))
	ids := sortedKeys(w.PNFT.Denoms)
	seen := map[string]bool{}
	for _, id := range ids {
		seen[id] = true
	}
	for k := range w.PNFT.Tokens {
		if !seen[k.Denom] {
			seen[k.Denom] = true
			ids = append(ids, k.Denom)
		}
	}
	sort.Strings(ids)
	for _, id := range ids {
		ps = append(ps, mkProbe(pathDenom, "denom "+id, &pnfttypes.QueryDenomRequest{Id: id}))
		ps = append(ps, mkProbe(pathPNFTs, "pnfts "+id, &pnfttypes.QueryPNFTsRequest{DenomId: id}))
		for _, o := range sortedKeys(owners) {
			ps = append(ps, mkProbe(pathPNFTsByOwner, "pnfts-by-owner "+id, &pnfttypes.QueryPNFTsByDenomOwnerRequest{DenomId: id, Owner: bech([]byte(o))}))
		}
		for _, t := range w.PNFT.TokensOf(id) {
			ps = append(ps, mkProbe(pathPNFT, "pnft "+id+"/"+t.ID, &pnfttypes.QueryPNFTRequest{DenomId: id, Id: t.ID}))
		}
	}
	for _, o := range sortedKeys(owners) {
		ps = append(ps, mkProbe(pathDenomsByOwner, "denoms-by-owner", &pnfttypes.QueryDenomsByOwnerRequest{Owner: bech([]byte(o))}))
	}
	return ps
}

// Answers evaluates the probe set on chain c at the given height (0 = latest).
func Answers(c *simnet.Chain, ps []Probe, height int64) [][]byte {
	out := make([][]byte, len(ps))
	for i, p := range ps {
		q := c.QueryRaw(p.Path, p.Req, height)
		out[i] = append([]byte(fmt.Sprintf("%d|%s|", q.Code, q.Codespace)), q.Value...)
	}
	return out
}

var customSections = []string{"aol", "did", "pnft", "burn"}

func sections(appState []byte) (map[string]json.RawMessage, error) {
	var gs map[string]json.RawMessage
	if err := json.Unmarshal(appState, &gs); err != nil {
		return nil, err
	}
	return gs, nil
}

// checkC08 performs the export/import round trip and switches the world to the new chain.
func (w *World) checkC08(st []byte, zero bool) error {
	st2, err := w.C.ExportMode(zero)
	if err != nil {
		return vio("C08", "second export failed: %v", err)
	}
	gs1, err := sections(st)
	if err != nil {
		return vio("C08", "exported state is not JSON: %v", err)
	}
	gs2, _ := sections(st2)
	for _, s := range customSections {
		if !bytes.Equal(gs1[s], gs2[s]) {
			return vio("C08", "two exports of the same state differ in section %s", s)
		}
	}
	if !bytes.Equal(st, st2) {
		w.Obs["c08 whole-app export differs between two exports of the same state"]++
	}
	cdc := w.C.App.AppCodec()
	txc := w.C.App.TxConfig()
	for _, s := range customSections {
		if err := func() (err error) {
			defer func() {
				if r := recover(); r != nil {
					err = fmt.Errorf("panic: %v", r)
				}
			}()
			hg, ok := app.ModuleBasics[s].(module.HasGenesisBasics)
			if !ok {
				return fmt.Errorf("module %s has no genesis validation", s)
			}
			return hg.ValidateGenesis(cdc, txc, gs1[s])
		}(); err != nil {
			return vio("C08", "exported %s section fails its own genesis validation: %v", s, err)
		}
	}
	probes := w.ProbeSet()
	before := Answers(w.C, probes, 0)
	nc, err := simnet.NewChainFromGenesis(st, w.Accts)
	if err != nil {
		return vio("C08", "initialising a fresh chain from the exported genesis failed: %v", err)
	}
	after := Answers(nc, probes, 0)
	for i := range probes {
		if !bytes.Equal(before[i], after[i]) {
			return vio("C08", "query %q (%s) answers differently after export/import:\n before %q\n after  %q", probes[i].Name, probes[i].Path, before[i], after[i])
		}
	}
	st3, err := nc.ExportMode(zero)
	if err != nil {
		return vio("C08", "export of the imported chain failed: %v", err)
	}
	gs3, _ := sections(st3)
	for _, s := range customSections {
		if !bytes.Equal(gs1[s], gs3[s]) {
			return vio("C08", "the imported chain's own export differs in section %s", s)
		}
	}
	nc.Time = w.C.Time
	w.C = nc
	w.Obs["c08 probes compared"] += len(probes)
	return nil
}
