package world

import (
	"bytes"
	"encoding/binary"
	"fmt"
	"sort"
	"strings"

	"github.com/cosmos/cosmos-sdk/codec"

	sdk "github.com/cosmos/cosmos-sdk/types"
	"github.com/cosmos/cosmos-sdk/types/query"
	"github.com/cosmos/cosmos-sdk/x/authz"
	aoltypes "github.com/medibloc/panacea-core/v2/x/aol/types"

	"verifharness/simnet"
)

// ---- reference model ------------------------------------------------------------------

type AolWriter struct {
	Moniker, Desc string
	Nano          int64
}

type AolRecord struct {
	Key, Value []byte
	Writer     string // as spelled in the acknowledged message
	Nano       int64
	Raw        []byte // stored bytes at first observation
}

type AolTopic struct {
	Owner   []byte // address bytes
	Name    string
	Desc    string
	Writers map[string]*AolWriter // by writer address bytes (as string)
	Records []AolRecord
}

type AolModel struct {
	Topics map[string]*AolTopic // key: owner bytes | 0xff | name  (unambiguous: see tkey)
	// everDeleted[topickey|writer] is set while a writer has been removed and not re-added
	Removed map[string]bool
	// Dangling holds writer entries a genesis installed under an <owner, topic> pair that has
	// no topic entry (the genesis validation has no referential check): the topic does not
	// exist, the entries are in the store. Same key as Topics.
	Dangling map[string]*AolTopic
}

func NewAolModel() *AolModel {
	return &AolModel{Topics: map[string]*AolTopic{}, Removed: map[string]bool{}, Dangling: map[string]*AolTopic{}}
}

// adopt turns a dangling writer list into the writer list of the topic that now exists.
func (m *AolModel) adopt(o []byte, name, desc string) *AolTopic {
	t := &AolTopic{Owner: o, Name: name, Desc: desc, Writers: map[string]*AolWriter{}}
	if d := m.Dangling[tkey(o, name)]; d != nil {
		t.Writers = d.Writers
		delete(m.Dangling, tkey(o, name))
	}
	m.Topics[tkey(o, name)] = t
	return t
}

func tkey(owner []byte, name string) string {
	return fmt.Sprintf("%x/%s", owner, name)
}

func (m *AolModel) Clone() *AolModel {
	o := NewAolModel()
	for k, t := range m.Topics {
		nt := &AolTopic{Owner: t.Owner, Name: t.Name, Desc: t.Desc, Writers: map[string]*AolWriter{}}
		for wk, wv := range t.Writers {
			c := *wv
			nt.Writers[wk] = &c
		}
		nt.Records = append([]AolRecord{}, t.Records...)
		o.Topics[k] = nt
	}
	for k, v := range m.Removed {
		o.Removed[k] = v
	}
	for k, t := range m.Dangling {
		nt := &AolTopic{Owner: t.Owner, Name: t.Name, Writers: map[string]*AolWriter{}}
		for wk, wv := range t.Writers {
			c := *wv
			nt.Writers[wk] = &c
		}
		o.Dangling[k] = nt
	}
	return o
}

func (m *AolModel) Topic(owner []byte, name string) *AolTopic { return m.Topics[tkey(owner, name)] }

// TopicsOf returns the owner's topics.
func (m *AolModel) TopicsOf(owner []byte) []*AolTopic {
	var out []*AolTopic
	for _, k := range sortedKeys(m.Topics) {
		if bytes.Equal(m.Topics[k].Owner, owner) {
			out = append(out, m.Topics[k])
		}
	}
	return out
}

// Owners returns the distinct owners (address bytes as string) that ever created a topic.
func (m *AolModel) Owners() []string {
	set := map[string]bool{}
	for _, t := range m.Topics {
		set[string(t.Owner)] = true
	}
	return sortedKeys(set)
}

// ---- key layout of the specification, written independently -----------------------------

func lp(b []byte) []byte { return append([]byte{byte(len(b))}, b...) }

func aolOwnerKey(owner []byte) []byte { return append([]byte{0x00}, lp(owner)...) }
func aolTopicKey(owner []byte, topic string) []byte {
	return append(append([]byte{0x01}, lp(owner)...), lp([]byte(topic))...)
}
func aolWriterKey(owner []byte, topic string, writer []byte) []byte {
	return append(append(append([]byte{0x02}, lp(owner)...), lp([]byte(topic))...), lp(writer)...)
}
func aolRecordKey(owner []byte, topic string, off uint64) []byte {
	var b [8]byte
	binary.BigEndian.PutUint64(b[:], off)
	return append(append(append([]byte{0x03}, lp(owner)...), lp([]byte(topic))...), lp(b[:])...)
}

// ---- helpers --------------------------------------------------------------------------------

func addrBytes(bech string) ([]byte, bool) {
	a, err := sdk.AccAddressFromBech32(bech)
	if err != nil {
		return nil, false
	}
	return a.Bytes(), true
}

// innerResponses returns, per inner message, the marshalled handler response.
func innerResponses(obs *TxObs) [][]byte {
	d, err := simnet.MsgResponses(obs.Res.Data)
	if err != nil {
		return nil
	}
	if obs.Step.Exec > 0 {
		if len(d.MsgResponses) != 1 {
			return nil
		}
		var er authz.MsgExecResponse
		if err := er.Unmarshal(d.MsgResponses[0].Value); err != nil {
			return nil
		}
		return er.Results
	}
	out := make([][]byte, len(d.MsgResponses))
	for i, r := range d.MsgResponses {
		out[i] = r.Value
	}
	return out
}

// ---- observation after every transaction ------------------------------------------------------

func (w *World) observeAOL(obs *TxObs) error {
	m := w.AOL
	nano := obs.Time.UnixNano()
	aolMsgs := 0
	for _, msg := range obs.Msgs {
		switch msg.(type) {
		case *aoltypes.MsgCreateTopicRequest, *aoltypes.MsgAddWriterRequest, *aoltypes.MsgDeleteWriterRequest, *aoltypes.MsgAddRecordRequest:
			aolMsgs++
		}
	}
	if aolMsgs == 0 && EqualKV(obs.Pre["aol"], obs.Post["aol"]) {
		return nil
	}
	type expChange struct {
		key  []byte
		kind string
	}
	// authorised effects the accepted transaction may have on the aol store
	allowed := map[string]string{}
	if obs.OK() {
		resps := innerResponses(obs)
		for i, msg := range obs.Msgs {
			switch x := msg.(type) {
			case *aoltypes.MsgCreateTopicRequest:
				o, ok := addrBytes(x.OwnerAddress)
				if !ok {
					continue
				}
				auth := w.Authorised(obs, canon(x.OwnerAddress), sdk.MsgTypeURL(x))
				if w.On("C02") && !auth {
					return vio("C02", "create-topic under owner %s accepted without the owner's signature or delegation", x.OwnerAddress)
				}
				if m.Topic(o, x.TopicName) == nil {
					m.adopt(o, x.TopicName, x.Description)
					w.Label("aol topic created")
				} else {
					w.Label("aol UNEXPECTED create on existing topic")
				}
				allowed[string(aolTopicKey(o, x.TopicName))] = "topic"
				allowed[string(aolOwnerKey(o))] = "owner"
			case *aoltypes.MsgAddWriterRequest:
				o, ok1 := addrBytes(x.OwnerAddress)
				wr, ok2 := addrBytes(x.WriterAddress)
				if !ok1 || !ok2 {
					continue
				}
				if w.On("C02") && !w.Authorised(obs, canon(x.OwnerAddress), sdk.MsgTypeURL(x)) {
					return vio("C02", "add-writer on <%s,%s> accepted without the owner's signature or delegation", x.OwnerAddress, x.TopicName)
				}
				t := m.Topic(o, x.TopicName)
				if t == nil {
					w.Label("aol UNEXPECTED add-writer on missing topic")
					continue
				}
				if _, dup := t.Writers[string(wr)]; dup {
					w.Label("aol UNEXPECTED duplicate add-writer")
				}
				t.Writers[string(wr)] = &AolWriter{x.Moniker, x.Description, nano}
				if m.Removed[tkey(o, x.TopicName)+"|"+string(wr)] {
					w.Label("aol writer re-added")
					delete(m.Removed, tkey(o, x.TopicName)+"|"+string(wr))
				}
				w.Label("aol writer added")
				allowed[string(aolTopicKey(o, x.TopicName))] = "topic"
				allowed[string(aolWriterKey(o, x.TopicName, wr))] = "writer"
			case *aoltypes.MsgDeleteWriterRequest:
				o, ok1 := addrBytes(x.OwnerAddress)
				wr, ok2 := addrBytes(x.WriterAddress)
				if !ok1 || !ok2 {
					continue
				}
				if w.On("C02") && !w.Authorised(obs, canon(x.OwnerAddress), sdk.MsgTypeURL(x)) {
					return vio("C02", "delete-writer on <%s,%s> accepted without the owner's signature or delegation", x.OwnerAddress, x.TopicName)
				}
				t := m.Topic(o, x.TopicName)
				if t == nil {
					if d := m.Dangling[tkey(o, x.TopicName)]; d != nil && d.Writers[string(wr)] != nil {
						// the owner removed a writer entry that the genesis left without a topic:
						// the handler writes the topic entry back, so the topic exists from now on
						t = m.adopt(o, x.TopicName, "")
						w.Label("aol dangling writer deleted by owner")
					} else {
						continue
					}
				}
				delete(t.Writers, string(wr))
				m.Removed[tkey(o, x.TopicName)+"|"+string(wr)] = true
				w.Label("aol writer deleted")
				if len(t.Records) > 0 {
					w.Label("aol writer deleted after records")
				}
				allowed[string(aolTopicKey(o, x.TopicName))] = "topic"
				allowed[string(aolWriterKey(o, x.TopicName, wr))] = "writer"
			case *aoltypes.MsgAddRecordRequest:
				o, ok1 := addrBytes(x.OwnerAddress)
				wr, ok2 := addrBytes(x.WriterAddress)
				if !ok1 || !ok2 {
					continue
				}
				t := m.Topic(o, x.TopicName)
				if w.On("C02") {
					if !w.Authorised(obs, canon(x.WriterAddress), sdk.MsgTypeURL(x)) {
						return vio("C02", "add-record naming writer %s accepted without that writer's signature or delegation", x.WriterAddress)
					}
					if t == nil && m.Dangling[tkey(o, x.TopicName)] != nil {
						return vio("C02", "add-record on <%s,%s> accepted although no such topic exists: the topic came into existence through a transaction its owner did not sign", x.OwnerAddress, x.TopicName)
					}
					if t == nil || t.Writers[string(wr)] == nil {
						return vio("C02", "add-record on <%s,%s> by %s accepted although that address is not in the writer list at this moment", x.OwnerAddress, x.TopicName, x.WriterAddress)
					}
				}
				if t == nil {
					w.Label("aol UNEXPECTED add-record on missing topic")
					continue
				}
				off := uint64(len(t.Records))
				if w.On("C01") && obs.Step.Group == 0 { // a group proposal does not return the inner responses
					if i >= len(resps) {
						return vio("C01", "add-record accepted but no response was returned")
					}
					var r aoltypes.MsgAddRecordResponse
					if err := r.Unmarshal(resps[i]); err != nil {
						return vio("C01", "add-record response undecodable: %v", err)
					}
					if r.Offset != off {
						return vio("C01", "add-record on <%x,%s> reported offset %d but the topic held %d records", o, x.TopicName, r.Offset, off)
					}
				}
				t.Records = append(t.Records, AolRecord{Key: x.Key, Value: x.Value, Writer: x.WriterAddress, Nano: nano})
				w.Label("aol record acknowledged")
				allowed[string(aolTopicKey(o, x.TopicName))] = "topic"
				allowed[string(aolRecordKey(o, x.TopicName, off))] = "record"
			}
		}
	}
	if w.On("C02") {
		// frame condition: only keys an authorised, accepted message may touch changed
		added, removed, changed := simnet.DiffDump(obs.Pre["aol"], obs.Post["aol"])
		for _, set := range [][]simnet.KV{added, removed, changed} {
			for _, kv := range set {
				if _, ok := allowed[string(kv.K)]; !ok {
					if !obs.OK() {
						return vio("C02", "rejected transaction (code %d) changed aol key %x", obs.Res.Code, kv.K)
					}
					return vio("C02", "accepted transaction changed aol key %x that none of its authorised messages may touch", kv.K)
				}
			}
		}
		if !obs.OK() {
			w.Label("aol refused attempt")
		}
	}
	if w.On("C01") {
		// completeness: a listed writer's single-message append that passed the ante is acknowledged
		if len(obs.Msgs) == 1 && !obs.Step.Wrapped() && obs.AntePassed && !obs.OK() {
			if x, ok := obs.Msgs[0].(*aoltypes.MsgAddRecordRequest); ok {
				o, ok1 := addrBytes(x.OwnerAddress)
				wr, ok2 := addrBytes(x.WriterAddress)
				if ok1 && ok2 && aolMsgWithinLimits(x) {
					if t := m.Topic(o, x.TopicName); t != nil && t.Writers[string(wr)] != nil && obs.Res.Codespace != "sdk" {
						return vio("C01", "append by listed writer %s on existing topic <%x,%s> was refused: %s/%d %s", x.WriterAddress, o, x.TopicName, obs.Res.Codespace, obs.Res.Code, obs.Res.Log)
					}
				}
			}
		}
		if err := w.checkC01Raw(obs.Post["aol"]); err != nil {
			return err
		}
	}
	return nil
}

func aolMsgWithinLimits(x *aoltypes.MsgAddRecordRequest) bool {
	return len(x.Key) <= 70 && len(x.Value) <= 5000
}

// canon returns the canonical (lower-case) bech32 spelling of an address string.
func canon(bech string) string {
	a, err := sdk.AccAddressFromBech32(bech)
	if err != nil {
		return bech
	}
	return a.String()
}

// EqualKV is simnet.EqualDump re-exported for brevity.
func EqualKV(a, b []simnet.KV) bool { return simnet.EqualDump(a, b) }

// checkC01Raw: the set of record keys equals {(o,t,i): i < count} and every stored value is
// byte-identical to its first observation, which itself decodes to the acknowledged fields.
func (w *World) checkC01Raw(dump []simnet.KV) error {
	have := map[string][]byte{}
	for _, kv := range dump {
		if len(kv.K) > 0 && kv.K[0] == 0x03 {
			have[string(kv.K)] = kv.V
		}
	}
	want := 0
	for _, tk := range sortedKeys(w.AOL.Topics) {
		t := w.AOL.Topics[tk]
		for i := range t.Records {
			want++
			k := aolRecordKey(t.Owner, t.Name, uint64(i))
			v, ok := have[string(k)]
			if !ok {
				return vio("C01", "record <%x,%s,%d> acknowledged earlier is missing from the store", t.Owner, t.Name, i)
			}
			r := &t.Records[i]
			if r.Raw == nil {
				var rec aoltypes.Record
				if err := rec.Unmarshal(v); err != nil {
					return vio("C01", "record <%x,%s,%d> undecodable: %v", t.Owner, t.Name, i, err)
				}
				if !bytes.Equal(rec.Key, r.Key) || !bytes.Equal(rec.Value, r.Value) || rec.WriterAddress != r.Writer || rec.NanoTimestamp != r.Nano {
					return vio("C01", "record <%x,%s,%d> stored as key=%x value=%x writer=%s ts=%d, acknowledged key=%x value=%x writer=%s ts=%d",
						t.Owner, t.Name, i, rec.Key, rec.Value, rec.WriterAddress, rec.NanoTimestamp, r.Key, r.Value, r.Writer, r.Nano)
				}
				r.Raw = v
			} else if !bytes.Equal(r.Raw, v) {
				return vio("C01", "record <%x,%s,%d> changed after it was acknowledged", t.Owner, t.Name, i)
			}
		}
	}
	if want != len(have) {
		// find an extra key
		exp := map[string]bool{}
		for _, t := range w.AOL.Topics {
			for i := range t.Records {
				exp[string(aolRecordKey(t.Owner, t.Name, uint64(i)))] = true
			}
		}
		for _, k := range sortedKeys(have) {
			if !exp[k] {
				return vio("C01", "store holds record key %x that was never acknowledged (gap, reuse or foreign key)", k)
			}
		}
	}
	return nil
}

// ---- committed-state (query-level) oracles ------------------------------------------------------

const (
	pathAolTopic   = "/panacea.aol.v2.Query/Topic"
	pathAolTopics  = "/panacea.aol.v2.Query/Topics"
	pathAolWriter  = "/panacea.aol.v2.Query/Writer"
	pathAolWriters = "/panacea.aol.v2.Query/Writers"
	pathAolRecord  = "/panacea.aol.v2.Query/Record"
)

func bech(b []byte) string { return sdk.AccAddress(b).String() }

func (w *World) checkAOLCommitted() error {
	if w.On("C01") {
		if err := w.checkC01Raw(w.C.DumpStore(w.C.CommittedCtx(), "aol")); err != nil {
			return err
		}
		for _, tk := range sortedKeys(w.AOL.Topics) {
			t := w.AOL.Topics[tk]
			for i := 0; i <= len(t.Records); i++ {
				q := w.C.Query(pathAolRecord, &aoltypes.QueryRecordRequest{OwnerAddress: bech(t.Owner), TopicName: t.Name, Offset: uint64(i)}, 0)
				if i == len(t.Records) {
					if q.Code == 0 {
						return vio("C01", "query for <%x,%s,%d> succeeded although only %d records were ever acknowledged", t.Owner, t.Name, i, len(t.Records))
					}
					continue
				}
				if q.Code != 0 {
					return vio("C01", "query for acknowledged record <%x,%s,%d> failed: %s", t.Owner, t.Name, i, q.Log)
				}
				var resp aoltypes.QueryRecordResponse
				if err := resp.Unmarshal(q.Value); err != nil || resp.Record == nil {
					return vio("C01", "query response for <%x,%s,%d> undecodable", t.Owner, t.Name, i)
				}
				r, rec := t.Records[i], resp.Record
				if !bytes.Equal(rec.Key, r.Key) || !bytes.Equal(rec.Value, r.Value) || rec.WriterAddress != r.Writer || rec.NanoTimestamp != r.Nano {
					return vio("C01", "query for <%x,%s,%d> returned key=%x value=%x writer=%s ts=%d, acknowledged key=%x value=%x writer=%s ts=%d",
						t.Owner, t.Name, i, rec.Key, rec.Value, rec.WriterAddress, rec.NanoTimestamp, r.Key, r.Value, r.Writer, r.Nano)
				}
			}
		}
	}
	if w.On("C02") {
		// the writer lists change through owner-signed transactions only: after every commit
		// (hence also after a restart or a genesis export/import) the stored writer entries are
		// exactly the model's
		have := map[string]bool{}
		for _, kv := range w.C.DumpStore(w.C.CommittedCtx(), "aol") {
			if len(kv.K) > 0 && kv.K[0] == 0x02 {
				have[string(kv.K)] = true
			}
		}
		want := map[string]string{}
		for _, set := range []map[string]*AolTopic{w.AOL.Topics, w.AOL.Dangling} {
			for _, t := range set {
				for wk := range t.Writers {
					want[string(aolWriterKey(t.Owner, t.Name, []byte(wk)))] = fmt.Sprintf("<%x,%s,%x>", t.Owner, t.Name, wk)
				}
			}
		}
		for _, k := range sortedKeys(want) {
			if !have[k] {
				return vio("C02", "writer entry %s disappeared without a transaction of the topic's owner", want[k])
			}
		}
		for _, k := range sortedKeys(have) {
			if _, ok := want[k]; !ok {
				return vio("C02", "the store lists a writer (key %x) that no transaction of the topic's owner added", k)
			}
		}
	}
	if w.On("C13") {
		return w.checkC13()
	}
	return nil
}

// suffixSort orders items the way the specification's key layout does (length-prefixed bytes).
func suffixSort(items [][]byte) {
	sort.Slice(items, func(i, j int) bool { return bytes.Compare(lp(items[i]), lp(items[j])) < 0 })
}

// PageReq describes one paging walk to perform.
type PageReq struct {
	Limit      uint64
	Reverse    bool
	CountTotal bool
	KeyStyle   bool // continue by next_key (true) or by offset (false)
}

// PageWalks is the set of walks performed by C13 after every commit; the generator may
// replace it per case.
var defaultWalks = []PageReq{{Limit: 0, KeyStyle: true}, {Limit: 1, KeyStyle: true}, {Limit: 2, Reverse: true, KeyStyle: true, CountTotal: true}, {Limit: 3, KeyStyle: false, CountTotal: true}}

func (w *World) walks() []PageReq {
	if w.Walks != nil {
		return w.Walks
	}
	return defaultWalks
}

func (w *World) checkC13() error {
	ctx := w.C.CommittedCtx()
	dump := w.C.DumpStore(ctx, "aol")
	raw := map[string][]byte{}
	for _, kv := range dump {
		raw[string(kv.K)] = kv.V
	}
	// prefix-exactness of the listings: a topic name the owner does not have -- the empty name,
	// or a strict prefix of one of the owner's names -- lists no writers
	for _, tk := range sortedKeys(w.AOL.Topics) {
		t := w.AOL.Topics[tk]
		names := map[string]bool{"": true}
		for i := 1; i < len(t.Name); i++ {
			names[t.Name[:i]] = true
		}
		for _, nm := range sortedKeys(names) {
			if w.AOL.Topic(t.Owner, nm) != nil || w.AOL.Dangling[tkey(t.Owner, nm)] != nil || len(nm) > 70 {
				continue
			}
			q := w.C.Query(pathAolWriters, &aoltypes.QueryWritersRequest{OwnerAddress: bech(t.Owner), TopicName: nm}, 0)
			var resp aoltypes.QueryWritersResponse
			if q.Code == 0 && resp.Unmarshal(q.Value) == nil && len(resp.WriterAddresses) > 0 {
				return vio("C13", "the writers listing of <%x,%q>, a topic that does not exist (its name is a prefix of %q), returns %d writers of other topics", t.Owner, nm, t.Name, len(resp.WriterAddresses))
			}
		}
	}
	// counters
	ownerTopics := map[string]int{}
	for _, tk := range sortedKeys(w.AOL.Topics) {
		t := w.AOL.Topics[tk]
		ownerTopics[string(t.Owner)]++
		q := w.C.Query(pathAolTopic, &aoltypes.QueryTopicRequest{OwnerAddress: bech(t.Owner), TopicName: t.Name}, 0)
		if q.Code != 0 {
			return vio("C13", "topic <%x,%s> exists in the model but the query fails: %s", t.Owner, t.Name, q.Log)
		}
		var resp aoltypes.QueryTopicResponse
		if err := resp.Unmarshal(q.Value); err != nil || resp.Topic == nil {
			return vio("C13", "topic response undecodable")
		}
		if resp.Topic.TotalWriters != uint64(len(t.Writers)) {
			return vio("C13", "topic <%x,%s> reports %d writers, %d are listed", t.Owner, t.Name, resp.Topic.TotalWriters, len(t.Writers))
		}
		if resp.Topic.TotalRecords != uint64(len(t.Records)) {
			return vio("C13", "topic <%x,%s> reports %d records, %d are stored", t.Owner, t.Name, resp.Topic.TotalRecords, len(t.Records))
		}
		// real contents in the store
		nw, nr := 0, 0
		wp := append(append([]byte{0x02}, lp(t.Owner)...), lp([]byte(t.Name))...)
		rp := append(append([]byte{0x03}, lp(t.Owner)...), lp([]byte(t.Name))...)
		for _, kv := range dump {
			if bytes.HasPrefix(kv.K, wp) {
				nw++
			}
			if bytes.HasPrefix(kv.K, rp) {
				nr++
			}
		}
		if nw != len(t.Writers) || nr != len(t.Records) {
			return vio("C13", "topic <%x,%s>: store holds %d writers / %d records, model %d / %d", t.Owner, t.Name, nw, nr, len(t.Writers), len(t.Records))
		}
		// writers listing
		var ws [][]byte
		for wk := range t.Writers {
			ws = append(ws, []byte(wk))
		}
		suffixSort(ws)
		want := make([]string, len(ws))
		for i, b := range ws {
			want[i] = bech(b)
		}
		for _, pr := range w.walks() {
			got, err := w.walk(pr, len(want), func(p *query.PageRequest) ([]string, *query.PageResponse, error) {
				q := w.C.Query(pathAolWriters, &aoltypes.QueryWritersRequest{OwnerAddress: bech(t.Owner), TopicName: t.Name, Pagination: p}, 0)
				if q.Code != 0 {
					return nil, nil, fmt.Errorf("%s", q.Log)
				}
				var r aoltypes.QueryWritersResponse
				if err := r.Unmarshal(q.Value); err != nil {
					return nil, nil, err
				}
				return r.WriterAddresses, r.Pagination, nil
			})
			if err != nil {
				return vio("C13", "writers of <%x,%s> walk %+v: %v", t.Owner, t.Name, pr, err)
			}
			if err := sameList(got, want, pr.Reverse); err != nil {
				return vio("C13", "writers of <%x,%s> walk %+v: %v", t.Owner, t.Name, pr, err)
			}
			w.Label("c13 writers walk")
		}
	}
	// owners: counter (store only; there is no endpoint) and topic listing
	owners := map[string]bool{}
	for o := range ownerTopics {
		owners[o] = true
	}
	for _, a := range w.Accts {
		owners[string(a.Addr.Bytes())] = true
	}
	for _, o := range sortedKeys(owners) {
		n := ownerTopics[o]
		var ow aoltypes.Owner
		if v, ok := raw[string(aolOwnerKey([]byte(o)))]; ok {
			if err := ow.Unmarshal(v); err != nil {
				return vio("C13", "owner entry undecodable")
			}
		}
		if ow.TotalTopics != uint64(n) {
			return vio("C13", "owner %x reports %d topics, %d exist", o, ow.TotalTopics, n)
		}
		var names [][]byte
		for _, t := range w.AOL.TopicsOf([]byte(o)) {
			names = append(names, []byte(t.Name))
		}
		suffixSort(names)
		want := make([]string, len(names))
		for i, b := range names {
			want[i] = string(b)
		}
		for _, pr := range w.walks() {
			got, err := w.walk(pr, len(want), func(p *query.PageRequest) ([]string, *query.PageResponse, error) {
				q := w.C.Query(pathAolTopics, &aoltypes.QueryTopicsRequest{OwnerAddress: bech([]byte(o)), Pagination: p}, 0)
				if q.Code != 0 {
					return nil, nil, fmt.Errorf("%s", q.Log)
				}
				var r aoltypes.QueryTopicsResponse
				if err := r.Unmarshal(q.Value); err != nil {
					return nil, nil, err
				}
				return r.TopicNames, r.Pagination, nil
			})
			if err != nil {
				return vio("C13", "topics of %x walk %+v: %v", o, pr, err)
			}
			if err := sameList(got, want, pr.Reverse); err != nil {
				return vio("C13", "topics of %x walk %+v: %v", o, pr, err)
			}
			if len(want) > 0 {
				w.Label("c13 topics walk")
				if pr.Limit > 0 && int(pr.Limit) < len(want) {
					w.Label("c13 multi-page walk")
				}
			}
		}
	}
	return nil
}

func sameList(got, want []string, reverse bool) error {
	exp := append([]string{}, want...)
	if reverse {
		for i, j := 0, len(exp)-1; i < j; i, j = i+1, j-1 {
			exp[i], exp[j] = exp[j], exp[i]
		}
	}
	if len(got) != len(exp) {
		return fmt.Errorf("paging yielded %d items %q, expected %d %q", len(got), got, len(exp), exp)
	}
	for i := range got {
		if got[i] != exp[i] {
			return fmt.Errorf("paging yielded %q, expected %q", got, exp)
		}
	}
	return nil
}

// walk pages through a listing until it is exhausted and returns the concatenation.
func (w *World) walk(pr PageReq, n int, fetch func(*query.PageRequest) ([]string, *query.PageResponse, error)) ([]string, error) {
	var all []string
	limit := pr.Limit
	eff := limit
	if eff == 0 {
		eff = 100
	}
	req := &query.PageRequest{Limit: limit, Reverse: pr.Reverse, CountTotal: pr.CountTotal}
	for page := 0; ; page++ {
		if page > n+3 {
			return nil, fmt.Errorf("paging does not terminate")
		}
		items, res, err := fetch(req)
		if err != nil {
			return nil, err
		}
		if uint64(len(items)) > eff {
			return nil, fmt.Errorf("page of %d items exceeds limit %d", len(items), eff)
		}
		all = append(all, items...)
		if res == nil {
			return nil, fmt.Errorf("no pagination response")
		}
		if len(req.Key) == 0 && (pr.CountTotal || limit == 0) && res.Total != uint64(n) {
			return nil, fmt.Errorf("total reported %d, %d items exist", res.Total, n)
		}
		if len(res.NextKey) == 0 {
			return all, nil
		}
		if pr.KeyStyle {
			req = &query.PageRequest{Key: res.NextKey, Limit: limit, Reverse: pr.Reverse, CountTotal: pr.CountTotal}
		} else {
			req = &query.PageRequest{Offset: uint64(len(all)), Limit: limit, Reverse: pr.Reverse, CountTotal: pr.CountTotal}
		}
	}
}

// LoadGenesis derives the model from an aol genesis section (string keys "owner/topic/...").
func (m *AolModel) LoadGenesis(cdc codec.JSONCodec, raw []byte) error {
	var gs aoltypes.GenesisState
	if err := cdc.UnmarshalJSON(raw, &gs); err != nil {
		return err
	}
	for k, t := range gs.Topics {
		parts := strings.Split(k, "/")
		o, ok := addrBytes(parts[0])
		if !ok || len(parts) != 2 {
			return fmt.Errorf("bad topic key %q", k)
		}
		m.Topics[tkey(o, parts[1])] = &AolTopic{Owner: o, Name: parts[1], Desc: t.Description, Writers: map[string]*AolWriter{}}
	}
	for k, wr := range gs.Writers {
		parts := strings.Split(k, "/")
		o, ok1 := addrBytes(parts[0])
		wa, ok2 := addrBytes(parts[2])
		t := m.Topic(o, parts[1])
		if !ok1 || !ok2 {
			return fmt.Errorf("bad writer key %q", k)
		}
		if t == nil {
			t = m.Dangling[tkey(o, parts[1])]
			if t == nil {
				t = &AolTopic{Owner: o, Name: parts[1], Writers: map[string]*AolWriter{}}
				m.Dangling[tkey(o, parts[1])] = t
			}
		}
		t.Writers[string(wa)] = &AolWriter{wr.Moniker, wr.Description, wr.NanoTimestamp}
	}
	type rk struct {
		t   *AolTopic
		off uint64
		r   *aoltypes.Record
	}
	var recs []rk
	for k, r := range gs.Records {
		parts := strings.Split(k, "/")
		o, ok := addrBytes(parts[0])
		t := m.Topic(o, parts[1])
		var off uint64
		if _, err := fmt.Sscanf(parts[2], "%d", &off); err != nil || !ok || t == nil {
			return fmt.Errorf("bad record key %q", k)
		}
		recs = append(recs, rk{t, off, r})
	}
	sort.Slice(recs, func(i, j int) bool { return recs[i].off < recs[j].off })
	for _, x := range recs {
		if uint64(len(x.t.Records)) != x.off {
			return fmt.Errorf("generated genesis has a record gap")
		}
		x.t.Records = append(x.t.Records, AolRecord{Key: x.r.Key, Value: x.r.Value, Writer: x.r.WriterAddress, Nano: x.r.NanoTimestamp})
	}
	return nil
}
