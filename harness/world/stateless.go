package world

import (
	"strings"

	sdk "github.com/cosmos/cosmos-sdk/types"
	"github.com/cosmos/cosmos-sdk/x/nft"
	aoltypes "github.com/medibloc/panacea-core/v2/x/aol/types"
	didtypes "github.com/medibloc/panacea-core/v2/x/did/types"
	pnfttypes "github.com/medibloc/panacea-core/v2/x/pnft/types"
)

// Independent re-implementation of the documented stateless limits (C16). Address
// well-formedness is delegated to the SDK's bech32 parser (trusted).

// Verdict is the oracle's answer.
type Verdict int

const (
	Reject Verdict = iota
	Accept
	Undetermined // the statement does not determine this class; generated but not asserted
)

func addrOK(s string) bool {
	_, err := sdk.AccAddressFromBech32(s)
	return err == nil
}

const nameCharset = "ABCDEFGHIJKLMNOPQRSTUVWXYZabcdefghijklmnopqrstuvwxyz0123456789._-"

func inCharset(s, set string) bool {
	for i := 0; i < len(s); i++ {
		if strings.IndexByte(set, s[i]) < 0 {
			return false
		}
	}
	return true
}

func topicOK(s string) bool   { return len(s) >= 1 && len(s) <= 70 && inCharset(s, nameCharset) }
func monikerOK(s string) bool { return len(s) <= 70 && inCharset(s, nameCharset) }

const b58 = "123456789ABCDEFGHJKLMNPQRSTUVWXYZabcdefghijkmnopqrstuvwxyz"

func DidOK(s string) bool {
	const p = "did:panacea:"
	if !strings.HasPrefix(s, p) {
		return false
	}
	id := s[len(p):]
	return len(id) >= 32 && len(id) <= 44 && inCharset(id, b58)
}

// methodIDOK: '<did>#<1-128 non-space>'. The third result is false when the suffix contains
// a character whose "space" status the statement does not settle.
func methodIDOK(id, did string) (ok bool, determined bool) {
	prefix := did + "#"
	if !strings.HasPrefix(id, prefix) {
		return false, true
	}
	suf := id[len(prefix):]
	if len(suf) < 1 || len(suf) > 128 {
		return false, true
	}
	if strings.ContainsAny(suf, " \t\n\f\r") {
		return false, true
	}
	// other white space (vertical tab, NEL, NBSP, U+2028 ...) is not settled by the statement
	for _, r := range suf {
		if r == '\v' || r == 0x85 || r == 0xA0 || r == 0x1680 || (r >= 0x2000 && r <= 0x200a) || r == 0x2028 || r == 0x2029 || r == 0x202f || r == 0x205f || r == 0x3000 {
			return true, false
		}
	}
	return true, true
}

func vmOK(vm *didtypes.VerificationMethod, did string) (bool, bool) {
	if vm == nil {
		return false, true
	}
	ok, det := methodIDOK(vm.Id, did)
	if !ok {
		return false, true
	}
	if vm.Type == "" {
		return false, true
	}
	if len(vm.PublicKeyBase58) == 0 || !inCharset(vm.PublicKeyBase58, b58) {
		return false, true
	}
	return true, det
}

func docVerdict(doc *didtypes.DIDDocument) Verdict {
	if doc == nil {
		return Reject
	}
	if doc.Id == "" {
		return Undetermined // the code treats every document without id as the tombstone form
	}
	det := true
	if !DidOK(doc.Id) {
		return Reject
	}
	if len(doc.VerificationMethods) == 0 || len(doc.Authentications) == 0 {
		return Reject
	}
	if doc.Controller != nil {
		all, none := true, true
		for _, c := range *doc.Controller {
			if c != "" {
				none = false
			}
			if !DidOK(c) {
				all = false
			}
		}
		if !(none || all) {
			return Reject
		}
	}
	if doc.Contexts != nil {
		cs := *doc.Contexts
		if len(cs) == 0 {
			return Undetermined // present-but-empty @context
		}
		if cs[0] != "https://www.w3.org/ns/did/v1" {
			return Reject
		}
		seen := map[string]bool{}
		for _, c := range cs {
			if c == "" || seen[c] {
				return Reject
			}
			seen[c] = true
		}
	}
	ids := map[string]bool{}
	for _, vm := range doc.VerificationMethods {
		ok, d := vmOK(vm, doc.Id)
		if !ok {
			return Reject
		}
		det = det && d
		ids[vm.Id] = true
	}
	for _, rels := range [][]didtypes.VerificationRelationship{doc.Authentications, doc.AssertionMethods, doc.KeyAgreements, doc.CapabilityInvocations, doc.CapabilityDelegations} {
		for _, rel := range rels {
			if vm := rel.GetVerificationMethod(); vm != nil {
				ok, d := vmOK(vm, doc.Id)
				if !ok {
					return Reject
				}
				det = det && d
				continue
			}
			ok, d := methodIDOK(rel.GetVerificationMethodId(), doc.Id)
			if !ok || !ids[rel.GetVerificationMethodId()] {
				return Reject
			}
			det = det && d
		}
	}
	for _, s := range doc.Services {
		if s == nil || s.Id == "" || s.Type == "" || s.ServiceEndpoint == "" {
			return Reject
		}
	}
	if !det {
		return Undetermined
	}
	return Accept
}

func and(vs ...Verdict) Verdict {
	out := Accept
	for _, v := range vs {
		if v == Reject {
			return Reject
		}
		if v == Undetermined {
			out = Undetermined
		}
	}
	return out
}

func b2v(b bool) Verdict {
	if b {
		return Accept
	}
	return Reject
}

func idOK(s string) bool { return s != "" && !strings.Contains(s, "\x00") }

// statelessVerdict is the oracle: what the documented limits say about msg.
func StatelessVerdict(msg sdk.Msg) Verdict {
	switch x := msg.(type) {
	case *aoltypes.MsgCreateTopicRequest:
		return b2v(topicOK(x.TopicName) && len(x.Description) <= 5000 && addrOK(x.OwnerAddress))
	case *aoltypes.MsgAddWriterRequest:
		return b2v(topicOK(x.TopicName) && monikerOK(x.Moniker) && len(x.Description) <= 5000 && addrOK(x.WriterAddress) && addrOK(x.OwnerAddress))
	case *aoltypes.MsgDeleteWriterRequest:
		return b2v(topicOK(x.TopicName) && addrOK(x.WriterAddress) && addrOK(x.OwnerAddress))
	case *aoltypes.MsgAddRecordRequest:
		return b2v(topicOK(x.TopicName) && len(x.Key) <= 70 && len(x.Value) <= 5000 && addrOK(x.WriterAddress) && addrOK(x.OwnerAddress) &&
			(x.FeePayerAddress == "" || addrOK(x.FeePayerAddress)))
	case *didtypes.MsgCreateDIDRequest:
		return and(b2v(DidOK(x.Did) && len(x.Signature) > 0 && addrOK(x.FromAddress)), docVerdict(x.Document))
	case *didtypes.MsgUpdateDIDRequest:
		return and(b2v(DidOK(x.Did) && len(x.Signature) > 0 && addrOK(x.FromAddress)), docVerdict(x.Document))
	case *didtypes.MsgDeactivateDIDRequest:
		return b2v(DidOK(x.Did) && len(x.Signature) > 0 && addrOK(x.FromAddress))
	case *pnfttypes.MsgCreateDenomRequest:
		return b2v(idOK(x.Id) && x.Name != "" && x.Symbol != "" && addrOK(x.Creator))
	case *pnfttypes.MsgUpdateDenomRequest:
		return b2v(x.Id != "" && addrOK(x.Updater))
	case *pnfttypes.MsgDeleteDenomRequest:
		return b2v(x.Id != "" && addrOK(x.Remover))
	case *pnfttypes.MsgTransferDenomRequest:
		return b2v(x.Id != "" && addrOK(x.Sender) && addrOK(x.Receiver))
	case *pnfttypes.MsgMintPNFTRequest:
		return b2v(idOK(x.DenomId) && idOK(x.Id) && x.Name != "" && addrOK(x.Creator))
	case *pnfttypes.MsgTransferPNFTRequest:
		return b2v(x.DenomId != "" && x.Id != "" && addrOK(x.Sender) && addrOK(x.Receiver))
	case *pnfttypes.MsgBurnPNFTRequest:
		return b2v(x.DenomId != "" && x.Id != "" && addrOK(x.Burner))
	}
	return Undetermined
}

// CheckStoredWithinLimits scans every object the custom modules hold and checks each
// stored field against the documented limits (second half of C16).
func (w *World) CheckStoredWithinLimits() error {
	ctx := w.C.CommittedCtx()
	for _, kv := range w.C.DumpStore(ctx, "aol") {
		parts, ok := splitLP(kv.K[1:])
		if !ok {
			return vio("C16", "aol key %x is not a composite key", kv.K)
		}
		switch kv.K[0] {
		case 0x01:
			var t aoltypes.Topic
			if len(parts) != 2 || t.Unmarshal(kv.V) != nil || !topicOK(string(parts[1])) || len(t.Description) > 5000 {
				return vio("C16", "stored topic %q / description of %d bytes is outside the limits", parts, len(t.Description))
			}
		case 0x02:
			var wr aoltypes.Writer
			if len(parts) != 3 || wr.Unmarshal(kv.V) != nil || !topicOK(string(parts[1])) || !monikerOK(wr.Moniker) || len(wr.Description) > 5000 {
				return vio("C16", "stored writer %q (moniker %q) is outside the limits", parts, wr.Moniker)
			}
		case 0x03:
			var r aoltypes.Record
			if len(parts) != 3 || r.Unmarshal(kv.V) != nil || len(r.Key) > 70 || len(r.Value) > 5000 || !addrOK(r.WriterAddress) {
				return vio("C16", "stored record %x (key %d bytes, value %d bytes) is outside the limits", kv.K, len(r.Key), len(r.Value))
			}
		}
	}
	for _, kv := range w.C.DumpStore(ctx, "did") {
		e, err := decodeDIDEntry(kv.V)
		if err != nil {
			return vio("C16", "stored did entry undecodable")
		}
		if !DidOK(string(kv.K[1:])) {
			return vio("C16", "stored under a malformed DID %q", kv.K[1:])
		}
		if e.Document != nil && e.Document.Id != "" && docVerdict(e.Document) == Reject {
			return vio("C16", "the document stored under %s is not well-formed", kv.K[1:])
		}
	}
	for _, kv := range w.C.DumpStore(ctx, "pnft") {
		switch kv.K[0] {
		case 0x01:
			var cl nft.Class
			if w.C.App.AppCodec().Unmarshal(kv.V, &cl) != nil || !idOK(cl.Id) || cl.Name == "" || cl.Symbol == "" {
				return vio("C16", "stored denom %q lacks a required field", kv.K[1:])
			}
		case 0x02:
			var n nft.NFT
			var meta pnfttypes.PNFTMeta
			if w.C.App.AppCodec().Unmarshal(kv.V, &n) != nil || n.Data == nil || meta.Unmarshal(n.Data.Value) != nil || !idOK(n.Id) || !idOK(n.ClassId) || meta.Name == "" || !addrOK(meta.Creator) {
				return vio("C16", "stored token %q lacks a required field", kv.K[1:])
			}
		}
	}
	return nil
}

func splitLP(b []byte) ([][]byte, bool) {
	var out [][]byte
	for len(b) > 0 {
		n := int(b[0])
		if 1+n > len(b) {
			return nil, false
		}
		out = append(out, b[1:1+n])
		b = b[1+n:]
	}
	return out, true
}
