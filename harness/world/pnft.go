package world

import (
	"bytes"
	"encoding/binary"
	"fmt"
	"sort"
	"time"

	"github.com/cosmos/cosmos-sdk/codec"
	sdk "github.com/cosmos/cosmos-sdk/types"
	"github.com/cosmos/cosmos-sdk/types/query"
	"github.com/cosmos/cosmos-sdk/x/nft"
	pnfttypes "github.com/medibloc/panacea-core/v2/x/pnft/types"

	"verifharness/simnet"
)

// ---- model ----------------------------------------------------------------------------------

type PnftDenom struct {
	ID, Name, Symbol, Desc, Uri, UriHash, Data string
	Owner                                      string // as spelled when it was set
	OwnerAddr                                  []byte
	Handovers                                  int
}

type TokenKey struct{ Denom, ID string }

type PnftToken struct {
	Denom, ID, Name, Desc, Uri, UriHash, Data, Creator string
	CreatedAt                                          time.Time
	Owner                                              []byte // address bytes
	Transfers                                          int
}

type PnftModel struct {
	Denoms map[string]*PnftDenom
	Tokens map[TokenKey]*PnftToken
	Burned int
	// DeletedDenoms / BurnedTokens remember identifiers that existed once (generators aim
	// re-creations at them).
	DeletedDenoms map[string]bool
	BurnedTokens  map[TokenKey]bool
	// FormerOwner remembers accounts that handed a denom or token over (for non-triviality labels)
	FormerDenomOwner map[string]map[string]bool
	FormerTokenOwner map[TokenKey]map[string]bool
}

func NewPnftModel() *PnftModel {
	return &PnftModel{Denoms: map[string]*PnftDenom{}, Tokens: map[TokenKey]*PnftToken{}, DeletedDenoms: map[string]bool{}, BurnedTokens: map[TokenKey]bool{},
		FormerDenomOwner: map[string]map[string]bool{}, FormerTokenOwner: map[TokenKey]map[string]bool{}}
}

func (m *PnftModel) Clone() *PnftModel {
	o := NewPnftModel()
	for k, d := range m.Denoms {
		c := *d
		o.Denoms[k] = &c
	}
	for k, t := range m.Tokens {
		c := *t
		o.Tokens[k] = &c
	}
	o.Burned = m.Burned
	for k := range m.DeletedDenoms {
		o.DeletedDenoms[k] = true
	}
	for k := range m.BurnedTokens {
		o.BurnedTokens[k] = true
	}
	for k, s := range m.FormerDenomOwner {
		o.FormerDenomOwner[k] = cloneSet(s)
	}
	for k, s := range m.FormerTokenOwner {
		o.FormerTokenOwner[k] = cloneSet(s)
	}
	return o
}

// LoadGenesis derives the model from a pnft genesis section.
func (m *PnftModel) LoadGenesis(cdc codec.JSONCodec, raw []byte) error {
	var gs pnfttypes.GenesisState
	if err := cdc.UnmarshalJSON(raw, &gs); err != nil {
		return err
	}
	for _, d := range gs.Denoms {
		ob, _ := addrBytes(d.Owner)
		m.Denoms[d.Id] = &PnftDenom{ID: d.Id, Name: d.Name, Symbol: d.Symbol, Desc: d.Description, Uri: d.Uri, UriHash: d.UriHash, Data: d.Data, Owner: d.Owner, OwnerAddr: ob}
	}
	for _, t := range gs.Pnfts {
		ob, ok := addrBytes(t.Owner)
		if !ok || m.Denoms[t.DenomId] == nil {
			return fmt.Errorf("generated pnft genesis holds a token the import cannot mint: %+v", t)
		}
		m.Tokens[TokenKey{t.DenomId, t.Id}] = &PnftToken{Denom: t.DenomId, ID: t.Id, Name: t.Name, Desc: t.Description, Uri: t.Uri, UriHash: t.UriHash,
			Data: t.Data, Creator: t.Creator, CreatedAt: t.CreatedAt, Owner: ob}
	}
	return nil
}

func (m *PnftModel) TokensOf(denom string) []*PnftToken {
	var out []*PnftToken
	for k, t := range m.Tokens {
		if k.Denom == denom {
			out = append(out, t)
		}
	}
	sort.Slice(out, func(i, j int) bool { return out[i].ID < out[j].ID })
	return out
}

func sameAccount(a string, b []byte) bool {
	ab, ok := addrBytes(a)
	return ok && bytes.Equal(ab, b)
}

func isPNFTMsg(msg sdk.Msg) bool {
	switch msg.(type) {
	case *pnfttypes.MsgCreateDenomRequest, *pnfttypes.MsgUpdateDenomRequest, *pnfttypes.MsgDeleteDenomRequest,
		*pnfttypes.MsgTransferDenomRequest, *pnfttypes.MsgMintPNFTRequest, *pnfttypes.MsgTransferPNFTRequest, *pnfttypes.MsgBurnPNFTRequest:
		return true
	}
	return false
}

func (w *World) observePNFT(obs *TxObs) error {
	m := w.PNFT
	n := 0
	for _, msg := range obs.Msgs {
		if isPNFTMsg(msg) {
			n++
		}
	}
	changed := !EqualKV(obs.Pre["pnft"], obs.Post["pnft"])
	if n == 0 && !changed {
		return nil
	}
	c06, c12 := w.On("C06"), w.On("C12")
	if !obs.OK() {
		if changed && (c06 || c12) {
			return vio(w.Opt.Prop, "refused transaction (code %d) changed the pnft store", obs.Res.Code)
		}
		if n > 0 {
			w.Label("pnft refused attempt")
			for _, msg := range obs.Msgs {
				if err := w.classifyRefusedPNFT(obs, msg); err != nil {
					return err
				}
			}
		}
		return nil
	}
	for _, msg := range obs.Msgs {
		switch x := msg.(type) {
		case *pnfttypes.MsgCreateDenomRequest:
			if c06 && !w.Authorised(obs, canon(x.Creator), sdk.MsgTypeURL(x)) {
				return vio("C06", "denom %q created under owner %s without that account's signature or delegation", x.Id, x.Creator)
			}
			if _, dup := m.Denoms[x.Id]; dup {
				if c12 {
					return vio("C12", "denom id %q created although it exists", x.Id)
				}
				continue
			}
			ob, _ := addrBytes(x.Creator)
			m.Denoms[x.Id] = &PnftDenom{ID: x.Id, Name: x.Name, Symbol: x.Symbol, Desc: x.Description, Uri: x.Uri, UriHash: x.UriHash, Data: x.Data, Owner: x.Creator, OwnerAddr: ob}
			w.Label("pnft denom created")
		case *pnfttypes.MsgUpdateDenomRequest:
			d := m.Denoms[x.Id]
			if c06 {
				if d == nil || !sameAccount(x.Updater, d.OwnerAddr) {
					return vio("C06", "denom %q updated by %s who is not its current owner", x.Id, x.Updater)
				}
				if !w.Authorised(obs, canon(x.Updater), sdk.MsgTypeURL(x)) {
					return vio("C06", "denom %q updated without the owner's signature or delegation", x.Id)
				}
			}
			if d == nil {
				continue
			}
			upd := func(dst *string, v string) {
				if v != "" {
					*dst = v
				}
			}
			upd(&d.Name, x.Name)
			upd(&d.Symbol, x.Symbol)
			upd(&d.Desc, x.Description)
			upd(&d.Uri, x.Uri)
			upd(&d.UriHash, x.UriHash)
			upd(&d.Data, x.Data)
			w.Label("pnft denom updated")
		case *pnfttypes.MsgDeleteDenomRequest:
			d := m.Denoms[x.Id]
			if c06 {
				if d == nil || !sameAccount(x.Remover, d.OwnerAddr) {
					return vio("C06", "denom %q deleted by %s who is not its current owner", x.Id, x.Remover)
				}
				if !w.Authorised(obs, canon(x.Remover), sdk.MsgTypeURL(x)) {
					return vio("C06", "denom %q deleted without the owner's signature or delegation", x.Id)
				}
			}
			if d == nil {
				continue
			}
			if len(m.TokensOf(x.Id)) > 0 {
				w.Label("pnft non-empty denom deleted")
			}
			delete(m.Denoms, x.Id)
			m.DeletedDenoms[x.Id] = true
			w.Label("pnft denom deleted")
		case *pnfttypes.MsgTransferDenomRequest:
			d := m.Denoms[x.Id]
			if c06 {
				if d == nil || !sameAccount(x.Sender, d.OwnerAddr) {
					return vio("C06", "denom %q handed over by %s who is not its current owner", x.Id, x.Sender)
				}
				if !w.Authorised(obs, canon(x.Sender), sdk.MsgTypeURL(x)) {
					return vio("C06", "denom %q handed over without the owner's signature or delegation", x.Id)
				}
			}
			if d == nil {
				continue
			}
			if m.FormerDenomOwner[x.Id] == nil {
				m.FormerDenomOwner[x.Id] = map[string]bool{}
			}
			if !sameAccount(x.Receiver, d.OwnerAddr) {
				m.FormerDenomOwner[x.Id][string(d.OwnerAddr)] = true
			}
			nb, _ := addrBytes(x.Receiver)
			delete(m.FormerDenomOwner[x.Id], string(nb))
			d.Owner, d.OwnerAddr = x.Receiver, nb
			d.Handovers++
			w.Label("pnft denom handed over")
		case *pnfttypes.MsgMintPNFTRequest:
			d := m.Denoms[x.DenomId]
			if c06 {
				if d == nil || !sameAccount(x.Creator, d.OwnerAddr) {
					return vio("C06", "token <%q,%q> minted by %s who is not the denom's current owner", x.DenomId, x.Id, x.Creator)
				}
				if !w.Authorised(obs, canon(x.Creator), sdk.MsgTypeURL(x)) {
					return vio("C06", "token <%q,%q> minted without the denom owner's signature or delegation", x.DenomId, x.Id)
				}
			}
			k := TokenKey{x.DenomId, x.Id}
			if _, dup := m.Tokens[k]; dup {
				if c12 {
					return vio("C12", "token <%q,%q> minted although it exists", x.DenomId, x.Id)
				}
				continue
			}
			if d == nil && c12 {
				return vio("C12", "token <%q,%q> minted into a denom that does not exist", x.DenomId, x.Id)
			}
			ob, _ := addrBytes(x.Creator)
			m.Tokens[k] = &PnftToken{Denom: x.DenomId, ID: x.Id, Name: x.Name, Desc: x.Description, Uri: x.Uri, UriHash: x.UriHash,
				Data: x.Data, Creator: x.Creator, CreatedAt: obs.Time, Owner: ob}
			w.Label("pnft minted")
		case *pnfttypes.MsgTransferPNFTRequest:
			k := TokenKey{x.DenomId, x.Id}
			t := m.Tokens[k]
			if c06 {
				if t == nil || !sameAccount(x.Sender, t.Owner) {
					return vio("C06", "token <%q,%q> transferred by %s who is not its current owner", x.DenomId, x.Id, x.Sender)
				}
				if !w.Authorised(obs, canon(x.Sender), sdk.MsgTypeURL(x)) {
					return vio("C06", "token <%q,%q> transferred without the owner's signature or delegation", x.DenomId, x.Id)
				}
			}
			if t == nil {
				continue
			}
			if m.FormerTokenOwner[k] == nil {
				m.FormerTokenOwner[k] = map[string]bool{}
			}
			nb, _ := addrBytes(x.Receiver)
			if !bytes.Equal(nb, t.Owner) {
				m.FormerTokenOwner[k][string(t.Owner)] = true
			}
			delete(m.FormerTokenOwner[k], string(nb))
			t.Owner = nb
			t.Transfers++
			w.Label("pnft transferred")
		case *pnfttypes.MsgBurnPNFTRequest:
			k := TokenKey{x.DenomId, x.Id}
			t := m.Tokens[k]
			if c06 {
				if t == nil || !sameAccount(x.Burner, t.Owner) {
					return vio("C06", "token <%q,%q> burned by %s who is not its current owner", x.DenomId, x.Id, x.Burner)
				}
				if !w.Authorised(obs, canon(x.Burner), sdk.MsgTypeURL(x)) {
					return vio("C06", "token <%q,%q> burned without the owner's signature or delegation", x.DenomId, x.Id)
				}
			}
			if t == nil {
				continue
			}
			delete(m.Tokens, k)
			delete(m.FormerTokenOwner, k)
			m.BurnedTokens[k] = true
			m.Burned++
			w.Label("pnft burned")
		}
	}
	if c06 || c12 {
		return w.checkPNFTRaw(obs.Post["pnft"])
	}
	return nil
}

func (w *World) classifyRefusedPNFT(obs *TxObs, msg sdk.Msg) error {
	m := w.PNFT
	former := func(set map[string]bool, who string) bool {
		b, ok := addrBytes(who)
		return ok && set[string(b)]
	}
	switch x := msg.(type) {
	case *pnfttypes.MsgUpdateDenomRequest:
		if former(m.FormerDenomOwner[x.Id], x.Updater) {
			w.Label("pnft former owner refused")
		}
	case *pnfttypes.MsgDeleteDenomRequest:
		if former(m.FormerDenomOwner[x.Id], x.Remover) {
			w.Label("pnft former owner refused")
		}
	case *pnfttypes.MsgTransferDenomRequest:
		if former(m.FormerDenomOwner[x.Id], x.Sender) {
			w.Label("pnft former owner refused")
		}
	case *pnfttypes.MsgMintPNFTRequest:
		if former(m.FormerDenomOwner[x.DenomId], x.Creator) {
			w.Label("pnft former owner refused")
		}
		// completeness (C12): a fresh pair in an existing denom, minted by its owner, is accepted
		if w.On("C12") && obs.AntePassed && len(obs.Msgs) == 1 && !obs.Step.Wrapped() && obs.Res.Codespace != "sdk" {
			if d := m.Denoms[x.DenomId]; d != nil && d.Owner == x.Creator && m.Tokens[TokenKey{x.DenomId, x.Id}] == nil {
				return vio("C12", "mint of fresh pair <%q,%q> by the denom's owner was refused (pairs alias): %s", x.DenomId, x.Id, obs.Res.Log)
			}
		}
	case *pnfttypes.MsgTransferPNFTRequest:
		if former(m.FormerTokenOwner[TokenKey{x.DenomId, x.Id}], x.Sender) {
			w.Label("pnft former owner refused")
		}
	case *pnfttypes.MsgBurnPNFTRequest:
		if former(m.FormerTokenOwner[TokenKey{x.DenomId, x.Id}], x.Burner) {
			w.Label("pnft former owner refused")
		}
	}
	return nil
}

// ---- raw store agreement --------------------------------------------------------------------

func nftKeyClass(id string) []byte { return append([]byte{0x01}, id...) }
func nftKeyNFT(c, id string) []byte {
	return append(append(append([]byte{0x02}, c...), 0x00), id...)
}
func nftKeyByOwner(owner []byte, c, id string) []byte {
	k := append([]byte{0x03, byte(len(owner))}, owner...)
	k = append(k, 0x00)
	k = append(k, c...)
	k = append(k, 0x00)
	return append(k, id...)
}
func nftKeyOwner(c, id string) []byte {
	return append(append(append([]byte{0x04}, c...), 0x00), id...)
}
func nftKeySupply(c string) []byte { return append([]byte{0x05}, c...) }

func (w *World) checkPNFTRaw(dump []simnet.KV) error {
	prop := w.Opt.Prop
	m := w.PNFT
	have := map[string][]byte{}
	count := map[byte]int{}
	for _, kv := range dump {
		have[string(kv.K)] = kv.V
		if len(kv.K) > 0 {
			count[kv.K[0]]++
		}
	}
	cdc := w.C.App.AppCodec()
	for _, id := range sortedKeys(m.Denoms) {
		d := m.Denoms[id]
		raw, ok := have[string(nftKeyClass(id))]
		if !ok {
			return vio(prop, "denom %q missing from the store", id)
		}
		var cl nft.Class
		if err := cdc.Unmarshal(raw, &cl); err != nil {
			return vio(prop, "denom %q undecodable: %v", id, err)
		}
		var meta pnfttypes.DenomMeta
		if cl.Data != nil {
			if err := meta.Unmarshal(cl.Data.Value); err != nil {
				return vio(prop, "denom %q meta undecodable", id)
			}
		}
		if cl.Id != d.ID || cl.Name != d.Name || cl.Symbol != d.Symbol || cl.Description != d.Desc || cl.Uri != d.Uri || cl.UriHash != d.UriHash || meta.Data != d.Data {
			return vio(prop, "denom %q stored as %+v / %+v, model %+v", id, cl, meta, *d)
		}
		if d.OwnerAddr == nil {
			// an owner string a genesis installed that is no address: nobody can act for it
			if meta.Owner != d.Owner {
				return vio(prop, "denom %q owned by %q in the store, model says %q (ownership changed without a transfer)", id, meta.Owner, d.Owner)
			}
		} else if !sameAccount(meta.Owner, d.OwnerAddr) {
			return vio(prop, "denom %q owned by %s in the store, model says %x (ownership changed without a transfer)", id, meta.Owner, d.OwnerAddr)
		}
	}
	if count[0x01] != len(m.Denoms) {
		return vio(prop, "store holds %d denoms, model %d", count[0x01], len(m.Denoms))
	}
	per := map[string]uint64{}
	for k, t := range m.Tokens {
		per[k.Denom]++
		raw, ok := have[string(nftKeyNFT(k.Denom, k.ID))]
		if !ok {
			return vio(prop, "token <%q,%q> missing from the store", k.Denom, k.ID)
		}
		var n nft.NFT
		if err := cdc.Unmarshal(raw, &n); err != nil {
			return vio(prop, "token <%q,%q> undecodable", k.Denom, k.ID)
		}
		var meta pnfttypes.PNFTMeta
		if n.Data != nil {
			if err := meta.Unmarshal(n.Data.Value); err != nil {
				return vio(prop, "token <%q,%q> meta undecodable", k.Denom, k.ID)
			}
		}
		if n.ClassId != t.Denom || n.Id != t.ID || n.Uri != t.Uri || n.UriHash != t.UriHash || meta.Name != t.Name || meta.Description != t.Desc ||
			meta.Data != t.Data || meta.Creator != t.Creator || !meta.CreatedAt.Equal(t.CreatedAt) {
			return vio(prop, "token <%q,%q> stored as %+v / %+v, minted as %+v (immutable fields changed)", k.Denom, k.ID, n, meta, *t)
		}
		ob, ok := have[string(nftKeyOwner(k.Denom, k.ID))]
		if !ok || !bytes.Equal(ob, t.Owner) {
			return vio(prop, "token <%q,%q> owner in store %x, model %x", k.Denom, k.ID, ob, t.Owner)
		}
		if _, ok := have[string(nftKeyByOwner(t.Owner, k.Denom, k.ID))]; !ok {
			return vio(prop, "token <%q,%q> missing from its owner's index", k.Denom, k.ID)
		}
		if w.On("C12") {
			if _, ok := m.Denoms[k.Denom]; !ok && !w.Opt.Open["C12-orphan-tokens"] {
				return vio("C12", "token <%q,%q> exists but its denom does not", k.Denom, k.ID)
			}
		}
	}
	if count[0x02] != len(m.Tokens) || count[0x03] != len(m.Tokens) || count[0x04] != len(m.Tokens) {
		return vio(prop, "store holds %d tokens / %d index entries / %d owner entries, model %d tokens", count[0x02], count[0x03], count[0x04], len(m.Tokens))
	}
	for _, kv := range dump {
		if len(kv.K) > 0 && kv.K[0] == 0x05 {
			c := string(kv.K[1:])
			if len(kv.V) != 8 || binary.BigEndian.Uint64(kv.V) != per[c] {
				return vio(prop, "total supply of %q is %x, model holds %d tokens", c, kv.V, per[c])
			}
			delete(per, c)
		}
	}
	for c, n := range per {
		if n != 0 {
			return vio(prop, "denom %q has %d tokens but no supply entry", c, n)
		}
	}
	return nil
}

// ---- query-level agreement (committed state) ----------------------------------------------------

const (
	pathDenoms        = "/panacea.pnft.v2.Query/Denoms"
	pathDenomsByOwner = "/panacea.pnft.v2.Query/DenomsByOwner"
	pathDenom         = "/panacea.pnft.v2.Query/Denom"
	pathPNFTs         = "/panacea.pnft.v2.Query/PNFTs"
	pathPNFTsByOwner  = "/panacea.pnft.v2.Query/PNFTsByDenomOwner"
	pathPNFT          = "/panacea.pnft.v2.Query/PNFT"
)

func (w *World) expectPnft(t *PnftToken) pnfttypes.Pnft {
	return pnfttypes.Pnft{DenomId: t.Denom, Id: t.ID, Name: t.Name, Description: t.Desc, Uri: t.Uri, UriHash: t.UriHash,
		Data: t.Data, Creator: t.Creator, Owner: bech(t.Owner), CreatedAt: t.CreatedAt.UTC()}
}

func pnftEq(a *pnfttypes.Pnft, b pnfttypes.Pnft) bool {
	return a != nil && a.DenomId == b.DenomId && a.Id == b.Id && a.Name == b.Name && a.Description == b.Description && a.Uri == b.Uri &&
		a.UriHash == b.UriHash && a.Data == b.Data && a.Creator == b.Creator && a.Owner == b.Owner && a.CreatedAt.Equal(b.CreatedAt)
}

func (w *World) expectDenom(d *PnftDenom) pnfttypes.Denom {
	return pnfttypes.Denom{Id: d.ID, Name: d.Name, Symbol: d.Symbol, Description: d.Desc, Uri: d.Uri, UriHash: d.UriHash, Owner: d.Owner, Data: d.Data}
}

func (w *World) checkPNFTCommitted() error {
	if !w.On("C12") && !w.On("C06") {
		return nil
	}
	prop := w.Opt.Prop
	if err := w.checkPNFTRaw(w.C.DumpStore(w.C.CommittedCtx(), "pnft")); err != nil {
		return err
	}
	if !w.On("C12") {
		return nil
	}
	m := w.PNFT
	// single-item views
	for _, t := range m.Tokens {
		q := w.C.Query(pathPNFT, &pnfttypes.QueryPNFTRequest{DenomId: t.Denom, Id: t.ID}, 0)
		var r pnfttypes.QueryPNFTResponse
		if q.Code != 0 || r.Unmarshal(q.Value) != nil || !pnftEq(r.Pnft, w.expectPnft(t)) {
			return vio(prop, "single-item view of <%q,%q>: code %d %s got %+v want %+v", t.Denom, t.ID, q.Code, q.Log, r.Pnft, w.expectPnft(t))
		}
	}
	// distinct (denom, token) pairs never alias: every other way of cutting the bytes
	// denom || 0x00 || id of a live token into a (denom', id') pair must not resolve, unless
	// that pair is itself a live token
	for k := range m.Tokens {
		joined := k.Denom + "\x00" + k.ID
		for i := 0; i < len(joined); i++ {
			if joined[i] != 0 || i == len(k.Denom) {
				continue
			}
			d2, id2 := joined[:i], joined[i+1:]
			if d2 == "" || id2 == "" {
				continue
			}
			if _, live := m.Tokens[TokenKey{d2, id2}]; live {
				continue
			}
			w.Label("c12 alias probe")
			if q := w.C.Query(pathPNFT, &pnfttypes.QueryPNFTRequest{DenomId: d2, Id: id2}, 0); q.Code == 0 {
				return vio("C12", "pair <%q,%q> was never minted but resolves to the token <%q,%q> (pairs alias)", d2, id2, k.Denom, k.ID)
			}
			q := w.C.Query(pathPNFTs, &pnfttypes.QueryPNFTsRequest{DenomId: d2}, 0)
			var r pnfttypes.QueryPNFTsResponse
			if q.Code == 0 && r.Unmarshal(q.Value) == nil {
				if err := w.samePnfts(r.Pnfts, m.TokensOf(d2)); err != nil {
					return vio("C12", "tokens-of-denom %q (an alias cut of <%q,%q>): %v", d2, k.Denom, k.ID, err)
				}
			}
		}
	}
	owners := map[string]bool{}
	for _, a := range w.Accts {
		owners[string(a.Addr.Bytes())] = true
	}
	for _, t := range m.Tokens {
		owners[string(t.Owner)] = true
	}
	for _, d := range m.Denoms {
		if len(d.OwnerAddr) > 0 {
			owners[string(d.OwnerAddr)] = true
		}
	}
	denomIDs := sortedKeys(m.Denoms)
	probe := append([]string{}, denomIDs...)
	probe = append(probe, w.ProbeDenoms...)
	for _, id := range probe {
		d := m.Denoms[id]
		q := w.C.Query(pathDenom, &pnfttypes.QueryDenomRequest{Id: id}, 0)
		if d == nil {
			if q.Code == 0 {
				return vio(prop, "denom %q does not exist but the single-item view answers", id)
			}
		} else {
			var r pnfttypes.QueryDenomResponse
			if q.Code != 0 || r.Unmarshal(q.Value) != nil || r.Denom == nil || *r.Denom != w.expectDenom(d) {
				return vio(prop, "single-item view of denom %q: code %d got %+v want %+v", id, q.Code, r.Denom, w.expectDenom(d))
			}
		}
		// tokens of the denom
		q = w.C.Query(pathPNFTs, &pnfttypes.QueryPNFTsRequest{DenomId: id}, 0)
		var r pnfttypes.QueryPNFTsResponse
		if q.Code != 0 || r.Unmarshal(q.Value) != nil {
			return vio(prop, "tokens-of-denom %q failed: %s", id, q.Log)
		}
		want := m.TokensOf(id)
		if err := w.samePnfts(r.Pnfts, want); err != nil {
			return vio(prop, "tokens-of-denom %q: %v", id, err)
		}
		for _, o := range sortedKeys(owners) {
			q = w.C.Query(pathPNFTsByOwner, &pnfttypes.QueryPNFTsByDenomOwnerRequest{DenomId: id, Owner: bech([]byte(o))}, 0)
			var ro pnfttypes.QueryPNFTsByDenomOwnerResponse
			if q.Code != 0 || ro.Unmarshal(q.Value) != nil {
				return vio(prop, "tokens-of-denom-by-owner <%q,%x> failed: %s", id, o, q.Log)
			}
			var wo []*PnftToken
			for _, t := range want {
				if string(t.Owner) == o {
					wo = append(wo, t)
				}
			}
			if err := w.samePnfts(ro.Pnfts, wo); err != nil {
				return vio(prop, "tokens-of-denom-by-owner <%q,%x>: %v", id, o, err)
			}
		}
	}
	// all denoms, paged
	for _, pr := range w.walks() {
		var got []string
		_, err := w.walk(pr, len(denomIDs), func(p *query.PageRequest) ([]string, *query.PageResponse, error) {
			q := w.C.Query(pathDenoms, &pnfttypes.QueryDenomsRequest{Pagination: p}, 0)
			if q.Code != 0 {
				return nil, nil, fmt.Errorf("%s", q.Log)
			}
			var r pnfttypes.QueryDenomsResponse
			if err := r.Unmarshal(q.Value); err != nil {
				return nil, nil, err
			}
			var ids []string
			for _, d := range r.Denoms {
				md := m.Denoms[d.Id]
				if md == nil || *d != w.expectDenom(md) {
					return nil, nil, fmt.Errorf("listing returned %+v, model %+v", d, md)
				}
				ids = append(ids, d.Id)
				got = append(got, d.Id)
			}
			return ids, r.Pagination, nil
		})
		if err != nil {
			return vio(prop, "denoms walk %+v: %v", pr, err)
		}
		sort.Strings(got)
		if err := sameList(got, denomIDs, false); err != nil {
			return vio(prop, "denoms walk %+v: %v", pr, err)
		}
	}
	// denoms by owner
	for _, o := range sortedKeys(owners) {
		q := w.C.Query(pathDenomsByOwner, &pnfttypes.QueryDenomsByOwnerRequest{Owner: bech([]byte(o))}, 0)
		var r pnfttypes.QueryDenomsByOwnerResponse
		if q.Code != 0 || r.Unmarshal(q.Value) != nil {
			return vio(prop, "denoms-by-owner %x failed: %s", o, q.Log)
		}
		var got, want []string
		for _, d := range r.Denoms {
			got = append(got, d.Id)
			if md := m.Denoms[d.Id]; md == nil || *d != w.expectDenom(md) {
				return vio(prop, "denoms-by-owner %x returned %+v, model %+v", o, d, md)
			}
		}
		for _, id := range denomIDs {
			if string(m.Denoms[id].OwnerAddr) == o {
				want = append(want, id)
			}
		}
		sort.Strings(got)
		if err := sameList(got, want, false); err != nil {
			if w.Opt.Open["C12-denoms-by-owner"] {
				w.Excluded["C12-denoms-by-owner"]++
				continue
			}
			return vio(prop, "denoms-by-owner %s: %v", bech([]byte(o)), err)
		}
	}
	return nil
}

func (w *World) samePnfts(got []*pnfttypes.Pnft, want []*PnftToken) error {
	if len(got) != len(want) {
		return fmt.Errorf("listing has %d items, model %d", len(got), len(want))
	}
	g := append([]*pnfttypes.Pnft{}, got...)
	sort.Slice(g, func(i, j int) bool { return g[i].Id < g[j].Id })
	for i := range g {
		if !pnftEq(g[i], w.expectPnft(want[i])) {
			return fmt.Errorf("listing item %+v differs from single-item view/model %+v", g[i], w.expectPnft(want[i]))
		}
	}
	return nil
}
