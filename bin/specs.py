"""Per-property run specifications: units (Go tests), case budgets per tier, floors, rules."""

MACHINE_ASSUME = [
    "the Cosmos SDK / CometBFT / IAVL layers below the ABCI boundary behave as documented",
    "secp256k1/ed25519 signatures cannot be forged: proofs are made by the harness or are garbage",
    "histories are finite (about 30-60 steps) over small colliding identifier pools",
]

def machine(test, quick, thorough, steps=30, tsteps=None, **kw):
    u = dict(test=test, quick=quick, thorough=thorough, steps=steps)
    u.update(kw)
    return u

SPECS = {
    "C01": dict(
        units=[machine("TestC01", 640, 12000, steps=32)],
        floor=0.35,
        rule="rapid state machine over signed transactions through DeliverTx/Commit/Query: AOL messages by listed, delisted and foreign accounts on prefix-colliding topic names, crash, restart and genesis export/import; a case is non-trivial when a record was acknowledged and afterwards its writer was removed, or a crash/restart/export-import happened, or a second topic exists; distinct = distinct sequence of (step kind, message types, outcome class)",
        assumptions=MACHINE_ASSUME),
    "C02": dict(
        units=[machine("TestC02", 1120, 16000, steps=32)],
        floor=0.35,
        rule="AOL machine with independently chosen signer sets, sign modes, fee payers and authz grant/revoke/exec; oracle = transition validity of the aol store diff of every DeliverTx; non-trivial = >=1 refused AOL attempt and >=1 accepted writer-list change or append; distinct as in C01",
        assumptions=MACHINE_ASSUME),
    "C13": dict(
        units=[machine("TestC13", 480, 9000, steps=32)],
        floor=0.22,
        rule="AOL machine; after every commit counters and complete paging walks (key/offset style, many limits, both directions, count_total on/off) equal the model; non-trivial = >=3 topics, a writer deleted and a multi-page walk",
        assumptions=MACHINE_ASSUME),
    "C03": dict(units=[machine("TestC03", 640, 12000, steps=30)], floor=0.35, rule=None, assumptions=MACHINE_ASSUME),
    "C04": dict(units=[machine("TestC04", 640, 12000, steps=30)], floor=0.25, rule=None, assumptions=MACHINE_ASSUME),
    "C05": dict(units=[machine("TestC05", 560, 9000, steps=32), machine("TestC05PostUpgrade", 96, 1600)], floor=0.25, rule=None, assumptions=MACHINE_ASSUME),
    "C11": dict(units=[machine("TestC11", 640, 9000, steps=24), dict(test="TestKnownC11", kind="plain", quick=1, thorough=1)], floor=0.45, rule=None, assumptions=MACHINE_ASSUME),
    "C06": dict(units=[machine("TestC06", 960, 14000, steps=34)], floor=0.22, rule=None, assumptions=MACHINE_ASSUME),
    "C12": dict(units=[machine("TestC12", 560, 10000, steps=34)], floor=0.18, rule=None, assumptions=MACHINE_ASSUME),
    "C08": dict(units=[machine("TestC08", 400, 6000, steps=34), dict(test="TestKnownC08", kind="plain", quick=1, thorough=1)], floor=0.28, rule=None, assumptions=MACHINE_ASSUME),
    "C07": dict(units=[machine("TestC07", 640, 10000, steps=30)], floor=0.35, rule=None, assumptions=MACHINE_ASSUME),
    "C09": dict(units=[machine("TestC09", 320, 5000, steps=36), machine("TestC09Process", 0, 640, steps=30, thorough_only=True),
                       dict(test="TestC09Concurrent", race=True, quick=16, thorough=320, shards=16, timeout=1500)], floor=0.30, rule=None, assumptions=MACHINE_ASSUME),
    "C10": dict(units=[machine("TestC10", 400, 6000, steps=36), machine("TestC10Disk", 0, 1600, steps=30, thorough_only=True),
                       machine("TestC10PostUpgrade", 160, 2400)], floor=0.40, rule=None, assumptions=MACHINE_ASSUME),
    "C14": dict(units=[dict(test="TestC14Enum", quick=16, thorough=640, shards=16, timeout=1800), dict(test="TestC14", quick=40000, thorough=2000000, timeout=1800), machine("TestC14Chain", 320, 5000, steps=28),
                       dict(test="TestKnownC14", kind="plain", quick=1, thorough=1), dict(test="TestKnownC14UTF8", kind="plain", quick=1, thorough=1)],
                floor=0.30,
                rule="(a) all 14x14 ordered type pairs x 3 sign modes enumerated with maximally overlapping instances (every same-named field copied onto the minimal valid instance of the other type; the minimal and generated base instances); (b) rapid-generated near-collision pairs: same fields under another type, a character moved between adjacent string fields, independent messages of the same / any type; oracle: equal sign bytes (direct, direct-aux, legacy amino JSON through the app's SignModeHandler) imply equal type URL and equal protobuf bytes, asserted when both messages pass stateless validation, plus recomputation with a fresh encoding configuration; non-trivial = the two messages differ and both pass stateless validation; distinct = distinct (type, proto) pair",
                assumptions=["the SDK sign-mode handlers and protobuf/amino codecs", "PNFT messages cannot be signed in legacy amino JSON at all (they do not implement the legacy message interface; the SDK refuses them), counted as 'mode unusable'"]),
    "C16": dict(units=[dict(test="TestC16", quick=200000, thorough=6000000, timeout=1800), machine("TestC16Pipeline", 320, 5000, steps=30),
                       dict(test="TestC16Charset", kind="plain", quick=1, thorough=1)],
                floor=0.20,
                rule="(1) boundary-directed messages of all 14 types, evaluated after a protobuf marshal/unmarshal round trip: byte lengths {0,1,max-1,max,max+1,2*max} built from 1-4 byte runes, control characters and invalid UTF-8; charset edges; DIDs with 31/32/44/45 base58 characters, excluded characters, wrong method, upper-case prefix, trailing newline; documents built from valid parts with 0-2 injected defects out of 45; address pool (valid, upper-case, 1- and 255-byte, wrong prefix, bad checksum, mixed case, empty, blank, 256-byte); oracle = independent re-implementation of the documented limits, ValidateBasic()==nil iff oracle accepts, three classes generated but not asserted (document without id, present-but-empty @context, non-ASCII white space in method ids); non-trivial = at most one field off its valid class and the verdict is asserted. (2) the pipeline half: see TestC16Pipeline's rule in the label distribution",
                assumptions=["sdk.AccAddressFromBech32 decides address well-formedness (SDK, trusted)", "protobuf wire encoding of the generated types"]),
    "C17": dict(units=[dict(test="TestC17Direct", quick=160000, thorough=4000000, timeout=1800), dict(test="TestC17KeyStore", quick=24000, thorough=600000, timeout=1800),
                       machine("TestC17Pipeline", 320, 5000, steps=30), dict(test="TestKnownC17", kind="plain", quick=1, thorough=1),
                       dict(test="FuzzC17Msg", kind="fuzz", fuzztime=120, thorough_only=True, quick=0, thorough=1, timeout=400),
                       dict(test="FuzzC17Query", kind="fuzz", fuzztime=120, thorough_only=True, quick=0, thorough=1, timeout=400),
                       dict(test="FuzzC17KeyStore", kind="fuzz", fuzztime=120, thorough_only=True, quick=0, thorough=1, timeout=400),
                       dict(test="FuzzC17Compkey", kind="fuzz", fuzztime=60, thorough_only=True, quick=0, thorough=1, timeout=400)],
                floor=0.30,
                rule="(1) direct calls: boundary-directed and hostile messages of all 14 types (absent sub-messages, empty/255/256/70000-byte strings, NUL, invalid UTF-8, malformed addresses) after a wire round trip: ValidateBasic, and GetSigners/GetSignBytes after successful validation, must not panic; (2) key-store files: structurally valid JSON with every parameter varied (version, cipher, kdf, prf, c, dklen in {-2^31..4096}, iv length 0..32, salt, ciphertext, matching / wrong / non-hex MAC), truncated and garbage files, any password, loaded through KeyStore.Load; (3) the pipeline machine (rule in TestC17Pipeline); (4) thorough tier: native go fuzzing of message bytes, query bytes, key-store bytes and composite-key bytes; non-trivial = the input decodes and reaches the entry point",
                assumptions=["a panic is observed as a Go panic in a direct call or as baseapp's recovered-panic error (codespace undefined, code 111222) through ABCI", "c and dklen are clamped (<= 1024 / <= 4096) so that a slow key derivation is not mistaken for a hang"]),
    "C18": dict(units=[dict(test="TestC18", quick=320000, thorough=16000000, timeout=1800), dict(test="TestC18AolKeys", quick=80000, thorough=2000000, timeout=1800),
                       dict(test="TestC18Genesis", quick=320, thorough=8000, shards=16, timeout=1800),
                       dict(test="TestC18Grid", kind="plain", quick=1, thorough=1)],
                floor=0.10, exhaustive=False,
                rule="rapid-generated pairs of 0-4 component tuples (lengths 0,1,2,254,255,256+,random; contents built from other components' length bytes) related by one boundary move/merge/split/truncate/bit flip, arbitrary and near-valid byte strings for the decoder, the complete length grid {0,1,254,255,256}^k for k<=3 with hostile fill bytes, and the four AOL key types over 1..255-byte addresses, validator-admitted topic names and extreme offsets; oracles: round trip, independent reference encoder, injectivity, prefix-exactness, rejection without truncation, decode-or-error, genesis string round trip; non-trivial = the two tuples differ while their encodings are in a byte-prefix relation or have equal length (pairs), differing tuples (grid), non-20-byte address / 69-70 byte topic / offset > 2^32 (AOL keys); distinct = distinct (Encode(x),Encode(y))",
                assumptions=["Go's bytes/strings packages", "sdk.AccAddress bech32 conversion (SDK, trusted)"]),
    "C19": dict(units=[machine("TestC19", 240, 4000), dict(test="TestC19Config", kind="plain", quick=1, thorough=1),
                       dict(test="TestC19Sequence", quick=64, thorough=1600, shards=16, timeout=1800)], floor=0.35, rule=None, assumptions=MACHINE_ASSUME + ["only the newest upgrade descriptor can be executed end to end; for earlier descriptors only the store bookkeeping is checked", "the pre-upgrade binary is emulated by the same code with the newest descriptor removed from the exported app.Upgrades list"]),
    "C20": dict(units=[dict(test="TestC20Snapshot", race=True, quick=32, thorough=800, shards=16, timeout=1500),
                       dict(test="TestC20PureRace", race=True, quick=320, thorough=8000, shards=16, timeout=1500),
                       dict(test="TestC20KeyStore", quick=32, thorough=640, shards=16, shrinktime="10s", timeout=1500),
                       dict(test="TestC20KeyStore", race=True, quick=0, thorough=32, shards=16, shrinktime="10s", thorough_only=True, timeout=1500)],
                floor=0.35, rule=None,
                assumptions=["the Go scheduler is not controlled by the harness: snapshot and race claims are statistical over generated workloads; the wait-cycle detector is sound when it fires but cannot prove freedom",
                             "latest-height queries and CheckTx/Simulate are serialised against Commit (CheckTx/Simulate against every ABCI call) as CometBFT does; strictly historical queries are fully unsynchronised",
                             "race reports whose racing accesses are in cosmos-sdk / iavl / cometbft code are counted but not attributed to panacea-core"]),
    "C15": dict(units=[machine("TestC15", 640, 12000, steps=30)], floor=0.45, rule=None, assumptions=MACHINE_ASSUME),
}

# rules for machine checks are stated once, in the Go registry; `bin/check` asks the test
# binary for them (TestRules) so that the text in the evidence is the text next to the code.
