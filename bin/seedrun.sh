#!/bin/sh
# seedrun.sh <seed-or-mutant patch> <prop> [<prop>...]: apply the patch in a scratch worktree of /repo (never /repo
# itself), run the listed checks against it through VERIF_REPO, remove the worktree. Prints one line per check.
V=$(dirname "$(dirname "$(readlink -f "$0")")")
patch=$(readlink -f "$1"); shift
name=$(basename $(dirname "$patch"))-$(basename "$patch" .patch)
W=/tmp/seedrun-$$
git -C /repo worktree add -q --detach $W HEAD || exit 2
trap 'git -C /repo worktree remove --force $W 2>/dev/null; find $V/replays -type f ! -name .gitkeep -delete' EXIT
(cd $W && git apply "$patch") || { echo "PATCH DOES NOT APPLY: $patch"; exit 2; }
for p in "$@"; do
  out=$(cd $V && VERIF_REPO=$W VERIF_EVIDENCE_DIR=$V/.work/evidence-scratch python3 bin/check run "$p" 2>&1); rc=$?
  echo "== $name $p exit=$rc $(echo "$out" | grep -aE 'ORACLE|DATA RACE' | grep -av 'rapid\] failed' | head -1 | cut -c1-220)"
done
