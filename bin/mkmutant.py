#!/usr/bin/env python3
"""mkmutant.py <name> <file> <old> <new> [<file> <old> <new> ...] : create /verif/mutants/<name>.patch from string replacements."""
import subprocess, sys
name = sys.argv[1]
args = sys.argv[2:]
subprocess.check_call(["git", "-C", "/repo", "checkout", "--", "."])
for i in range(0, len(args), 3):
    f, old, new = args[i:i+3]
    p = "/repo/" + f
    s = open(p).read()
    assert old in s, "pattern not found in " + f + ": " + old
    open(p, "w").write(s.replace(old, new, 1))
d = subprocess.check_output(["git", "-C", "/repo", "diff"]).decode()
open("/verif/mutants/%s.patch" % name, "w").write(d)
subprocess.check_call(["git", "-C", "/repo", "checkout", "--", "."])
print("wrote", name, len(d.splitlines()), "lines")
