#!/bin/sh
# seedall.sh : regression over every stored seeded change: each must still be caught by (at least) the check of
# its own property (optional argument: a glob over seed ids, e.g. "C0*"). Prints one line per seed; exit 1 if any seed is not caught.
cd /verif
fail=0
for d in seeded/${1:-*}/; do
  id=$(basename $d)
  prop=$(python3 -c "import json;print(json.load(open('$d/meta.json'))['property'])")
  out=$(bin/seedrun.sh /verif/$d/patch.diff $prop 2>&1 | grep "^== ")
  case "$out" in
    *"exit=1"*) echo "caught   $id $prop";;
    *) echo "MISSED   $id $prop :: $out"; fail=1;;
  esac
done
exit $fail
