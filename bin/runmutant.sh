#!/bin/sh
# runmutant.sh <patch> <prop> [<prop>...] : apply to /repo, build, run pinned suite and the checks, undo.
patch="$1"; shift
cd /repo || exit 2
git diff --quiet || { echo "/repo has uncommitted changes"; exit 2; }
git apply "$patch" || exit 2
trap 'git -C /repo checkout -- . ; git -C /repo clean -fdq; find /verif/replays -type f ! -name .gitkeep -delete' EXIT
if ! (cd /repo && GOFLAGS=-mod=mod go build ./... 2>&1 | tail -5); then echo "BUILD FAILED"; fi
if [ -z "$SKIP_BASELINE" ]; then /verif/bin/baseline.sh | head -3; fi
for p in "$@"; do
  out=$(cd /verif && VERIF_EVIDENCE_DIR=/verif/.work/evidence-scratch python3 bin/check run "$p" 2>&1); rc=$?
  echo "== $(basename $patch) $p exit=$rc"; echo "$out" | grep -E "ORACLE|VIOLATION|INCONCLUSIVE|quick:" | head -4 | cut -c1-400
done
