import json,collections,sys
L=collections.Counter(); n=0; nt=0; shapes=set(); nts=set()
for l in open(sys.argv[1]):
    d=json.loads(l); n+=1; nt+=d['nt']; shapes.add(d['shape'])
    if d['nt']: nts.add(d['shape'])
    for k,v in d.get('labels',{}).items(): L[k]+=v
    for k,v in d.get('obs',{}).items(): L['OBS '+k]+=v
    for k,v in d.get('excluded',{}).items(): L['EXCL '+k]+=v
print('cases',n,'nontrivial',nt,'distinct',len(shapes),'distinct nt',len(nts))
for k,v in sorted(L.items()): print(v,k)
