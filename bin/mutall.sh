#!/bin/sh
# mutall.sh : regression over the hand-written mutants (mutants/mNNx.patch belongs to property CNN): each is applied in
# a scratch worktree (never /repo) and the check of its property is run. Prints one line per mutant.
cd /verif
for m in mutants/*.patch; do
  id=$(basename $m .patch)
  prop=C$(echo $id | cut -c2-3)
  out=$(bin/seedrun.sh /verif/$m $prop 2>&1 | grep "^== ")
  case "$out" in
    *"exit=1"*) echo "caught   $id $prop";;
    *) echo "MISSED   $id $prop :: $out";;
  esac
done
