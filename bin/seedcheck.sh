#!/bin/sh
# seedcheck.sh <name> <srcdir-with-SEED> <prop> [<prop>...]
# Confirms an independently written breaking change in a scratch worktree (pinned suite passes,
# demonstration fails with it and passes without), stores it under /verif/seeded/<name>/, then
# applies it to /repo, runs the listed checks and undoes it.
name="$1"; src="$2"; shift 2
export GOFLAGS=-mod=mod GOPROXY=off GOSUMDB=off GOTOOLCHAIN=local DBUS_SESSION_BUS_ADDRESS=unix:path=/nonexistent/verif-no-session-bus
S="$src/SEED"
[ -f "$S/patch.diff" ] || { echo "no patch.diff in $S"; exit 2; }
demo_rel=$(grep -o '[a-zA-Z0-9_./-]*\.go' "$S/demo_path.txt" | grep -v '^SEED/' | grep '/' | head -1)
demo_file=$(ls "$S"/*_test.go "$S"/*_test.go.txt "$S"/*.go "$S"/*.go.txt 2>/dev/null | head -1)
[ -n "$demo_file" ] || { echo "NO DEMO FILE in $S"; exit 2; }
[ -n "$demo_rel" ] || { echo "NO DEMO PATH in $S/demo_path.txt"; exit 2; }
W=/tmp/confirm-$name
git -C /repo worktree remove --force $W 2>/dev/null
git -C /repo worktree add -q --detach $W HEAD || exit 2
cleanup() { git -C /repo worktree remove --force $W 2>/dev/null; }
trap cleanup EXIT
cd $W
git apply "$S/patch.diff" || { echo "PATCH DOES NOT APPLY"; exit 2; }
go build ./... || { echo "BUILD FAILS"; exit 2; }
echo "-- pinned suite with the change:"; VERIF_REPO=$W /verif/bin/baseline.sh | head -3
pkg=$(dirname "$demo_rel")
cp "$demo_file" "$W/$demo_rel"
echo "-- demo WITH change (must fail): $demo_rel"
go test -vet=off -count=1 ./$pkg/ -run 'Seed|Demo|seed|demo' 2>&1 | tail -4 | cut -c1-300
git apply -R "$S/patch.diff"
echo "-- demo WITHOUT change (must pass):"
go test -vet=off -count=1 ./$pkg/ -run 'Seed|Demo|seed|demo' 2>&1 | tail -2 | cut -c1-300
cd /verif
mkdir -p /verif/seeded/$name
cp "$S/patch.diff" /verif/seeded/$name/patch.diff
cp "$demo_file" /verif/seeded/$name/
cp "$S/README.md" /verif/seeded/$name/README.md 2>/dev/null
cp "$S/demo_path.txt" /verif/seeded/$name/ 2>/dev/null
# run the checks against the scratch worktree with the change applied (VERIF_REPO): /repo itself stays
# untouched, so background runs that rebuild from /repo are not disturbed
cd $W && git apply "$S/patch.diff" || exit 2
rm -f "$W/$demo_rel"
trap 'cleanup; find /verif/replays -type f ! -name .gitkeep -delete' EXIT
for p in "$@"; do
  out=$(cd /verif && VERIF_REPO=$W VERIF_EVIDENCE_DIR=/verif/.work/evidence-scratch python3 bin/check run "$p" 2>&1); rc=$?
  echo "== seeded/$name $p exit=$rc"; echo "$out" | grep -aE "ORACLE|VIOLATION|INCONCLUSIVE|quick:" | grep -av "rapid\] failed" | head -3 | cut -c1-400
done
