#!/usr/bin/env python3
"""Regenerate harness/go.mod + go.sum from the repository's own go.mod (offline).

The harness module mirrors the repo's require/replace set so that the very same
dependency graph is compiled, replaces the repo module by the working tree under
$VERIF_REPO (default /repo) and pins pgregory.net/rapid v1.3.0 (the repo pins
v0.5.5 for the SDK's testdata; v1.3.0 compiles that code unchanged and has T.Repeat).
"""
import os, re, sys, shutil

def generate(verif, repo, outdir=None):
    src = open(os.path.join(repo, "go.mod")).read()
    out = []
    for line in src.splitlines():
        if line.startswith("module "):
            out.append("module verifharness")
            continue
        if re.search(r"pgregory\.net/rapid\s*=>", line):
            continue
        if re.match(r"\s*pgregory\.net/rapid\s+v", line):
            continue
        out.append(line)
    out.append("")
    out.append("require github.com/medibloc/panacea-core/v2 v2.0.0-00010101000000-000000000000")
    out.append("require pgregory.net/rapid v1.3.0")
    out.append("replace github.com/medibloc/panacea-core/v2 => %s" % repo)
    out.append("")
    hdir = os.path.join(verif, "harness")
    new = "\n".join(out)
    tdir = outdir or hdir
    p = os.path.join(tdir, "go.mod")
    old = open(p).read() if os.path.exists(p) else None
    if old != new:
        open(p, "w").write(new)
    # go.sum: the repo's sums plus rapid v1.3.0 (kept in harness/go.sum.extra)
    sums = open(os.path.join(repo, "go.sum")).read()
    extra = os.path.join(hdir, "go.sum.extra")
    if os.path.exists(extra):
        sums += open(extra).read()
    ps = os.path.join(tdir, "go.sum")
    olds = open(ps).read() if os.path.exists(ps) else None
    if olds != sums:
        open(ps, "w").write(sums)

if __name__ == "__main__":
    verif = os.path.dirname(os.path.dirname(os.path.abspath(__file__)))
    generate(verif, os.environ.get("VERIF_REPO", "/repo"))
