#!/bin/sh
# Runs the repository's pinned suite (guard off) and prints pass/fail counts.
cd "${VERIF_REPO:-/repo}" && DBUS_SESSION_BUS_ADDRESS=unix:path=/nonexistent/verif-no-session-bus GOFLAGS=-mod=mod GOPROXY=off GOSUMDB=off go test -mod=mod -json -vet=off -count=1 -timeout 25m ./... 2>/dev/null | python3 -c "
import sys,json
p=f=0; fails=[]
for l in sys.stdin:
    try: d=json.loads(l)
    except: continue
    if d.get('Test') and d.get('Action') in ('pass','fail'):
        if d['Action']=='pass': p+=1
        else: f+=1; fails.append(d['Package']+'::'+d['Test'])
print('passed',p,'failed',f); print('\n'.join(fails))
sys.exit(1 if f or p<98 else 0)
"
